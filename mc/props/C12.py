"""C12 - native code stays inside its buffers and the process never crashes.

The C11 (complete), C10, C03 and C15 (quick-size) drivers, plus C12's own sizing / large-count /
write-path cells, are executed against the ASan+UBSan build of cencoding.c / speedups.c; cells that a
sanitizer aborted are run a second time, to their end, under a recovering build.  A point passes iff the worker
neither dies (signal, sanitizer report) nor reports a canary violation; value
disagreements are C03/C10/C11's business, not this property's.
"""
import re

ID = "C12"
LEVEL = "exploration"
FLAVOUR = "asan"
TIMEOUT = 300
RULE = ("the complete C11 primitive lattice, the C10 thrift lattice (incl. payloads above the 500000-byte "
        "serialisation buffer, the utf8 / column key-value payloads and the aggregate shapes of many medium "
        "payloads) and the C03 foreign-file lattices D1 (dictionary index widths 0..32) and D3 "
        "(delta miniblock widths 0..64) re-executed under clang ASan+UBSan (alignment check off) with "
        "exact-size heap buffers and PYTHONMALLOC=malloc (bytes objects get redzones too). Added under the same "
        "build: S sizing points of ThriftObject.to_bytes (key-value text above the floor on a footer without row "
        "groups, one 510000-byte path_in_schema element, a statistics value of 499950 bytes that fits the buffer "
        "but not what is left of it, a RowGroup root of 600 columns x 1000-byte statistics, an OffsetIndex of 40000 "
        "page locations = integers only, in 9 byte alignments against the end of the buffer; thorough: a 4000-column "
        "hive write); P primitive cells with counts above 2^16 (read_rle, read_bitpacked, read_bitpacked1, hybrid "
        "streams with 3-byte run headers, delta, byte arrays: 70000 values, capacities n-1/n/n+1) and byte-array "
        "items of every length 0..17, 31..33, 63..65 as the last item of the buffer (bytes and utf8); the encoders at "
        "the end of their output buffer (varints of every length 1..10 with 0..12 bytes of room, encode_bitpacked / "
        "encode_rle_bp with every capacity around their need; canary slice and exact-size allocation); C03 D1 with "
        "categories for v2 pages at widths 1,8,9,16, D10 (multi-page dictionary chunks), D3b (delta pages under "
        "codecs: freshly allocated exact-size pages), D12 (zero-value pages); N the C15 nested lattice (all six "
        "LIST/MAP shapes x INT64/UTF8 x PLAIN/dictionary x v1/v2, sequences of <= 2 rows in quick, the whole "
        "quick C15 lattice in thorough); W one fastparquet write + read per column kind x v1/v2 (native write "
        "path, self-made fast paths). Every cell that a sanitizer aborted (quick: except delta miniblock widths >= 57 and the "
        "'extremes' series, which die under any build) is executed a second time to its end "
        "under a recovering build (-fsanitize-recover, halt_on_error=0) and every distinct report (sanitizer, "
        "error, function, access) of that pass is a signature of its own; "
        "a point is non-trivial when native code processed >= 1 value/byte")
ASSUMPTIONS = ["sanitiser coverage is of the C generated from the .pyx present in the working tree",
               "memory errors that stay inside one numpy allocation are seen only through canaries",
               "unaligned little-endian loads are intended (alignment check disabled)",
               "recovering pass: every cell runs in a process of its own (reports are deduplicated per code location within a process), so a "
               "location reported for one cell may stay silent for a later cell of the same worker (the halting "
               "pass has already attributed the first report of every aborted cell)",
               "uncompressed pages are slices of the file buffer: reads past such a page are visible only in "
               "the primitive cells and under a codec (D3b, D1 codec cells)"]


REC_FLAGS = ["clang", "-O1", "-g", "-shared", "-fPIC", "-fwrapv", "-fno-strict-aliasing", "-w",
             "-fsanitize=address,undefined", "-fno-sanitize=alignment",
             "-fsanitize-recover=address,undefined", "-fno-omit-frame-pointer", "-shared-libasan"]
REPORT_OPTS = ":print_legend=0:malloc_context_size=4:stack_trace_format='    #%n %p %F'"


def c03_points(tier):
    """C03 sub-lattices executed under the sanitised build (always at C03's quick size)"""
    from mc.props import C03
    allq = C03.points("quick")
    pts = [p for p in allq if p["d"] in ("D1", "D3", "D4")]
    if tier != "thorough":
        def keep(p):
            if p["d"] != "D1" or not (p.get("cats") or p["enc"] == "PLAIN_DICTIONARY"):
                return True
            # v2 pages read as categoricals decode into a scratch array of 1- or 4-byte items (core.read_data_page_v2)
            return bool(p.get("cats")) and p["v"] == 2 and p["enc"] == "RLE_DICTIONARY" and "codec" not in p \
                and p["width"] in (1, 8, 9, 16)
        pts = [p for p in pts if keep(p)]
    pts += [p for p in allq if p["d"] in ("D10", "D3b", "D12")]
    return pts


def c15_points(tier):
    from mc.props import C15
    if tier == "thorough":
        return C15.points("quick")
    return [dict(p, maxrows=2) for p in C15.points("quick") if p["elem"] in ("int64", "utf8")]


def sizing_points(tier):
    pts = []
    for where, n in (("kv_r0", 499000), ("kv_r0", 510000), ("path_in_schema", 510000), ("stat_max", 499950),
                     ("rowgroup_root", 1000)):
        for route in ("R1", "R2"):
            pts.append({"kind": "sizing", "where": where, "n": n, "route": route, "_fresh": True})
    # a structure of integers only (no memcpy) that outgrows the buffer: the checked small writes must drop what
    # does not fit, wherever in a multi-byte varint the end of the buffer falls (9 alignments)
    for shift in range(9):
        # (parsed route only: the writer's marker scheme cannot express PageLocation's mixed integer widths)
        pts.append({"kind": "sizing", "where": "offset_index", "n": 40000, "shift": shift, "route": "R2",
                    "_fresh": True})
    if tier == "thorough":
        pts.append({"kind": "sizing", "where": "write_hive_wide", "n": 4000, "route": "write", "_fresh": True})
    return pts


BIG_N = 70000       # > 2^16 values: 3-byte run headers, counters wider than 16 bits


def prim12_points(tier):
    pts = [{"prim12": "rle_big"}, {"prim12": "bitpacked_big"}, {"prim12": "hybrid_big"}, {"prim12": "bool_big"},
           {"prim12": "delta_big", "longval": 0}, {"prim12": "delta_big", "longval": 1},
           {"prim12": "byte_array_big"}, {"prim12": "byte_array_lens"}, {"prim12": "encoders_tight"}]
    return pts


def written_points(tier):
    from mc import alphabets as A
    return [{"kind": "written12", "colkind": k, "v": v} for k in A.ALL_KINDS for v in (1, 2)]


def explore(run, tier):
    from mc.props import C11, C10
    from mc import build
    run.env["ASAN_OPTIONS"] += REPORT_OPTS      # short reports: the frames of the faulting stack fit the log tail
    run.env["UBSAN_OPTIONS"] += REPORT_OPTS
    aborted = []
    walls = run.extra.setdefault("lattice_wall_s", {})

    def lattice(name, pts, fn, collect=True):
        import time
        t = time.time()
        res = run.lattice(name, pts, fn)
        walls[name] = round(time.time() - t, 1)
        if not collect:
            return res
        for p, r in zip(pts, res):
            if r and r.get("outcome") in ("crash", "timeout") and not p.get("_fresh"):
                if tier != "thorough" and (p.get("width", 0) >= 57 or p.get("series") == "extremes"):
                    continue    # recorded SIGSEGV region (wrapped int8 cursors): dies under the recovering build too
                aborted.append({"rec": fn, "p": p})
        return res

    pts11 = C11.points(tier)
    if tier != "thorough":
        # every crash costs a worker restart under ASan: in the quick tier the region with recorded defects
        # (delta miniblock widths >= 29) is represented by its boundary widths only
        pts11 = [p for p in pts11 if not (p["prim"] == "delta" and p["width"] >= 29
                                          and p["width"] not in (29, 32, 33, 56, 57, 64))]
    lattice("C11-primitives", pts11, "run_c11")
    lattice("C12-primitives", prim12_points(tier), "run_prim12")
    # the primitive cells hand numpy (malloc) buffers to the native code; everything below goes through Python
    # objects as well: bytes objects below 512 bytes get redzones only with the system allocator.  (A second pool:
    # worker start-up is slower with it, and most aborts - each one a worker restart - are in the primitive cells.)
    run.close()
    crashes0 = run.extra_crashes
    run.env["PYTHONMALLOC"] = "malloc"
    I = C10.idl()
    pts = C10.struct_points(I, tier) + C10.nesting_points(tier)
    lattice("C10-thrift", pts, "run_c10", collect=False)
    big = C10.big_points("thorough") + (C10.agg_points(tier) if hasattr(C10, "agg_points") else [])
    lattice("C10-big", big, "run_c10", collect=False)
    lattice("C12-sizing", sizing_points(tier), "run_sizing", collect=False)
    try:
        from mc.props import C03
    except ImportError:
        C03 = None
    if C03 is not None:
        lattice("C03-native", c03_points(tier), "run_c03")
    try:
        lattice("C15-nested", c15_points(tier), "run_c15")
    except ImportError:
        pass
    lattice("written", written_points(tier), "run_written12")
    # ---- second pass: the aborted cells, to their end, under the recovering build
    if aborted:
        run.close()
        crashes = run.extra_crashes + crashes0
        build.FLAGS.setdefault("asanrec", REC_FLAGS)
        top2, env2, _ = build.overlay("asanrec")
        old = run.env
        try:
            for k in ("LD_PRELOAD", "PYTHONMALLOC"):
                env2[k] = old[k]
            env2["ASAN_OPTIONS"] = old["ASAN_OPTIONS"].replace("abort_on_error=1", "abort_on_error=1:halt_on_error=0")
            env2["UBSAN_OPTIONS"] = old["UBSAN_OPTIONS"].replace("halt_on_error=1", "halt_on_error=0")
            run.env = env2
            # one process per cell: the sanitizers report a code location once per process, so in a shared worker
            # the cell that gets a report would depend on the order of execution
            lattice("aborted-cells-recovering", [dict(pt, _fresh=True) for pt in aborted], "run_rec", collect=False)
            run.close()
            run.extra_crashes += crashes
        finally:
            run.env = old
            build.cleanup(top2)
    else:
        run.close()
        run.extra_crashes += crashes0


def _pyx_frame(txt):
    """innermost frame of the extension modules in a report"""
    fr = re.findall(r"#\d+ 0x[0-9a-f]+ in (__pyx_\w+)", txt)
    return _short(fr[0]) if fr else None


def _sanitizer(log):
    acc = re.search(r"^(READ|WRITE) of size", log, flags=re.M)
    extra = {"access": acc.group(1)} if acc else {}
    m = re.search(r"SUMMARY: AddressSanitizer: ([\w-]+) \S+ in (\w+)", log)
    if m:
        return dict({"sanitizer": "asan", "error": m.group(1), "func": _short(m.group(2))}, **extra)
    m = re.search(r"SUMMARY: AddressSanitizer: ([\w-]+) .* in (__asan_mem\w+|__interceptor_\w+|mem\w+)\s*$", log, flags=re.M)
    if m:
        # the fault is inside an intercepted libc routine: name the extension function that called it
        e = re.search(r"ERROR: AddressSanitizer", log)
        func = _pyx_frame(log[e.end():] if e else log) or re.sub(r"^__(asan|interceptor)_", "", m.group(2))
        return dict({"sanitizer": "asan", "error": m.group(1), "func": func}, **extra)
    m = re.search(r"ERROR: AddressSanitizer: ([\w-]+)", log)
    if m:
        kind = m.group(1)
        f = re.search(r"#\d+ 0x[0-9a-f]+ in (__pyx\w+|\w+)", log[m.end():])
        func = f.group(1) if f else "?"
        fr = re.findall(r"#\d+ 0x[0-9a-f]+ in (__pyx_\w+)", log[m.end():])
        if fr:
            func = fr[0]
        return dict({"sanitizer": "asan", "error": kind, "func": _short(func)}, **extra)
    m = re.search(r"runtime error: ([^\n]+)", log)
    if m:
        msg = re.sub(r"-?\d+", "N", m.group(1))[:60]
        loc = re.search(r"(\w+\.c):(\d+):\d+: runtime error", log)
        fr = re.findall(r"#\d+ 0x[0-9a-f]+ in (__pyx_\w+)", log[m.end():])
        return {"sanitizer": "ubsan", "error": msg, "func": _short(fr[0]) if fr else "?"}
    return {"sanitizer": "none", "error": "died", "func": "?"}


def _short(f):
    f = re.sub(r"^__pyx_(f|pf|pw|fuse_\d+)?_*", "", f)
    f = re.sub(r"^\d+fastparquet_\d+(cencoding|speedups)_", "", f)
    f = re.sub(r"^\d+", "", f)
    return f[:60]


SIG_KEYS = ("width", "itemsize", "longval", "series", "where", "struct", "count", "shape", "elem", "enc", "v",
            "type", "codec", "pv", "colkind", "cats")


def _driver(point):
    return (point.get("prim") or point.get("prim12") or point.get("kind") or point.get("d")
            or ("nested" if "elem" in point else None))


def crash_sig(point, res):
    if "rec" in point:
        # a cell of the recovering pass died all the same (SIGSEGV, or a report that cannot be recovered from).
        # The worker's log holds the recovered reports of earlier cells too: the fatal one is the last.
        s = crash_sig(point["p"], res)
        s["mode"] = "recover"
        head = res.get("log_tail", "").split("\n----\n", 1)[0]
        last = [l for l in head.splitlines() if l.startswith("SUMMARY: AddressSanitizer")][-1:]
        m = re.search(r"SUMMARY: AddressSanitizer: ([\w-]+) .* in (\w+)\s*$", last[0]) if last else None
        if m:
            s.update(sanitizer="asan", error=m.group(1), func=_short(m.group(2)))
            s.pop("access", None)
        return s
    s = _sanitizer(res.get("log_tail", ""))
    s["symptom"] = res["outcome"]
    s["driver"] = _driver(point)
    for k in SIG_KEYS:
        if k in point:
            s[k] = point[k]
    if "n" in point and point.get("kind") in ("big", "sizing"):
        s["size_class"] = ">500000" if point["n"] > 500000 else "<=500000"
    return s


def _reports(txt):
    """the distinct (sanitizer, error, func, access) of the reports in a piece of worker log"""
    starts = [m.start() for m in re.finditer(r"^(=+\d+=+ERROR: AddressSanitizer|\S+:\d+:\d+: runtime error:)", txt, flags=re.M)]
    out = {}
    for i, a in enumerate(starts):
        blk = txt[a:starts[i + 1] if i + 1 < len(starts) else len(txt)]
        r = _sanitizer(blk)
        out.setdefault(repr(sorted(r.items())), r)
    return list(out.values())


def _filter(res, driver):
    """keep only what C12 judges: canaries (crashes never reach here)"""
    sigs = res.get("sig") or []
    if isinstance(sigs, dict):
        sigs = [sigs]
    mine = [dict(s, driver=driver) for s in sigs if "canary" in str(s.get("symptom"))]
    if res.get("outcome") == "harness_error":
        return res
    out = {"ok": not mine, "outcome": "in_bounds" if not mine else "canary_overwritten",
           "nontrivial": bool(res.get("nontrivial")), "counts": res.get("counts"),
           "detail": res.get("detail", "") if mine else ""}
    if mine:
        out["sig"] = mine
    return out


def run_c11(point):
    from mc.props import C11
    return _filter(C11.run(point), point["prim"])


def run_c10(point):
    from mc.props import C10
    return _filter(C10.run(point), "thrift")


def run_c03(point):
    from mc.props import C03
    return _filter(C03.run(point), "c03")


def run_c15(point):
    from mc.props import C15
    return _filter(C15.run(point), "nested")


def run_rec(point):
    """recovering build: run the cell to its end, every distinct sanitizer report is a signature"""
    import os
    import sys
    inner = point["p"]
    sys.stderr.flush()
    try:
        start = os.fstat(2).st_size
    except OSError:
        start = None
    res = globals()[point["rec"]](inner)
    sys.stderr.flush()
    txt = ""
    if start is not None:
        try:
            with open("/proc/self/fd/2", "rb") as f:
                f.seek(start)
                txt = f.read().decode("utf8", "replace")
        except OSError:
            txt = ""
    reps = _reports(txt)
    if res.get("outcome") == "harness_error" and not reps:
        return res
    sigs = list(res.get("sig") or []) if isinstance(res.get("sig"), list) else ([res["sig"]] if res.get("sig") else [])
    for r in reps:
        s = dict(r, symptom="sanitizer_report", mode="recover", driver=_driver(inner))
        for k in SIG_KEYS:
            if k in inner:
                s[k] = inner[k]
        sigs.append(s)
    out = {"ok": not sigs, "outcome": "in_bounds" if not sigs else ("sanitizer_report" if reps else res.get("outcome")),
           "nontrivial": bool(res.get("nontrivial")), "counts": res.get("counts"),
           "detail": "reports of the recovering pass: %s" % ", ".join(
               "%s %s in %s" % (r.get("access", ""), r["error"], r["func"]) for r in reps)[:300] if reps else res.get("detail", "")}
    if sigs:
        out["sig"] = sigs
    return out


# ---------------------------------------------------------------------------- S: buffer sizing of to_bytes
def run_sizing(point):
    import pickle
    import numpy as np
    from fastparquet import cencoding as ce
    from mc.props import C10
    from mc.specpq.thrift import codec
    I = C10.idl()
    where, n = point["where"], point["n"]
    if where == "write_hive_wide":
        import os
        import pandas as pd
        import fastparquet
        from mc.scratch import scratch
        df = pd.DataFrame({("column_number_%05d" % i): np.arange(2, dtype="int64") for i in range(n)})
        try:
            fastparquet.write(os.path.join(scratch(), "wide"), df, file_scheme="hive")
        except Exception as e:
            return {"ok": True, "outcome": "refused", "nontrivial": True, "detail": "%s: %s" % (type(e).__name__, e)}
        return {"ok": True, "outcome": "in_bounds", "nontrivial": True}
    sname = "FileMetaData"
    if where == "kv_r0":
        # a footer without row groups (_common_metadata): the estimate is len(str(key_value_metadata)) alone
        v = C10.fmd_value(I, 0, 1, 1)
        v["key_value_metadata"][0]["value"] = "v" * n
    elif where == "path_in_schema":
        v = C10.fmd_value(I, 1, 1, 1)
        v["row_groups"][0]["columns"][0]["meta_data"]["path_in_schema"] = ["p" * n]
    elif where == "stat_max":
        v = C10.fmd_value(I, 1, 1, 1)
        v["row_groups"][0]["columns"][0]["meta_data"]["statistics"] = {"max": b"M" * n, "min": b"m", "null_count": 0}
    elif where == "rowgroup_root":
        sname = "RowGroup"
        v = C10.fmd_value(I, 1, 600, 0)["row_groups"][0]
        for ch in v["columns"]:
            ch["meta_data"]["statistics"] = {"max": b"M" * n, "min": b"m" * n, "null_count": 0}
    elif where == "offset_index":
        sname = "OffsetIndex"
        locs = [{"offset": 1000000 + 70000 * i, "compressed_page_size": 66000 + (i % 7), "first_row_index": 20000 * i}
                for i in range(n)]
        # the first offset's varint has 1 + shift bytes: everything behind it moves by that much
        locs[0]["offset"] = (1 << (7 * point["shift"])) >> 1
        v = {"page_locations": locs}
    else:
        raise KeyError(where)
    if point["route"] == "R1":
        x = C10.build_r1(I, sname, C10.r1_filter(I, sname, v))
    else:
        raw = codec().encode(sname, v)
        x = ce.ThriftObject(sname, ce.from_buffer(np.frombuffer(raw, dtype=np.uint8).copy()))
    try:
        y = bytes(x.to_bytes())
        z = pickle.loads(pickle.dumps(x))
    except Exception as e:
        return {"ok": True, "outcome": "refused_too_large", "nontrivial": True, "detail": "%s: %s" % (type(e).__name__, e)}
    return {"ok": True, "outcome": "in_bounds", "nontrivial": True, "counts": {"bytes": len(y)}}


# ---------------------------------------------------------------------------- P: primitives, large counts / item lengths
CANARY = 0xA5


def _obuf(np, nbytes):
    big = np.full(nbytes + 64, CANARY, dtype=np.uint8)
    return big, big[32:32 + nbytes]


def _ibuf(np, data):
    a = np.empty(max(len(data), 1), dtype=np.uint8)     # exact-size heap allocation
    if len(data):
        a[:len(data)] = np.frombuffer(bytes(data), dtype=np.uint8)
    return a


class _P:
    def __init__(self, point):
        self.point, self.calls, self.vals, self.sigs, self.detail = point, 0, 0, {}, ""

    def bad(self, symptom, detail, **extra):
        s = dict({"driver": self.point["prim12"], "symptom": symptom}, **extra)
        if "longval" in self.point:
            s["longval"] = self.point["longval"]
        self.sigs.setdefault(repr(sorted(s.items())), s)
        self.detail = self.detail or detail

    def out(self, np, big, out, isz, expect, tell, cap, what, fn):
        """canaries, count, and the values (a counter narrower than the count shows here first)"""
        self.calls += 1
        n = min(len(expect), cap)
        self.vals += n
        if not bool((big[:32] == CANARY).all() and (big[32 + len(out):] == CANARY).all()):
            self.bad("canary_overwritten", "%s: bytes outside the output slice were written" % what, fn=fn)
        if tell != n * isz:
            self.bad("counter_wrong_count", "%s: tell()=%d, expected %d values" % (what, tell, n), fn=fn)
        dt = {1: np.uint8, 4: np.uint32, 8: np.uint64}[isz]
        got = out[:n * isz].view(dt)
        exp = np.array(expect[:n], dtype=dt) if n else np.empty(0, dtype=dt)
        if not np.array_equal(got, exp):
            i = int(np.nonzero(got != exp)[0][0])
            self.bad("counter_wrong_value", "%s: value %d is %d, specification says %d" % (what, i, int(got[i]), int(exp[i])), fn=fn)

    def result(self):
        ok = not self.sigs
        return {"ok": ok, "outcome": "in_bounds" if ok else "wrong", "nontrivial": self.vals > 0,
                "counts": {"calls": self.calls, "compared_values": self.vals},
                "sig": list(self.sigs.values()) or None, "detail": self.detail}


def run_prim12(point):
    import numpy as np
    from fastparquet import cencoding as ce
    c = _P(point)
    globals()["_p12_" + point["prim12"]](c, point, np, ce)
    return c.result()


def _caps(n):
    return (n - 1, n, n + 1)


def _p12_rle_big(c, p, np, ce):
    n = BIG_N
    for w, isz in ((1, 1), (8, 1), (9, 4), (24, 4)):
        v = (1 << w) - 1
        data = v.to_bytes((w + 7) // 8, "little")
        for cap in _caps(n):
            big, out = _obuf(np, cap * isz)
            o = ce.NumpyIO(out)
            ce.read_rle(ce.NumpyIO(_ibuf(np, data)), n << 1, w, o, isz)
            c.out(np, big, out, isz, [v] * n, o.tell(), cap, "read_rle(count=%d,width=%d,cap=%d)" % (n, w, cap), "read_rle")


def _p12_bitpacked_big(c, p, np, ce):
    from mc.specpq import codecs as C
    n = BIG_N
    for w, isz in ((1, 1), (3, 1), (8, 1), (12, 4), (24, 4)):
        vals = [(i * 2654435761 >> 5) & ((1 << w) - 1) for i in range(n)]
        data = C.bitpack(vals, w)
        for cap in _caps(n):
            big, out = _obuf(np, cap * isz)
            o = ce.NumpyIO(out)
            fo = ce.NumpyIO(_ibuf(np, data))
            ce.read_bitpacked(fo, ((n // 8) << 1) | 1, w, o, isz)
            c.out(np, big, out, isz, vals, o.tell(), cap, "read_bitpacked(groups=%d,width=%d,cap=%d)" % (n // 8, w, cap),
                  "read_bitpacked")
            if fo.tell() != len(data):
                c.bad("counter_wrong_position", "read_bitpacked consumed %d of %d bytes" % (fo.tell(), len(data)), fn="read_bitpacked")


def _p12_hybrid_big(c, p, np, ce):
    import struct
    from mc.specpq import codecs as C
    n = BIG_N
    for w, isz in ((1, 1), (3, 1), (12, 4)):
        m = (1 << w) - 1
        bp = [(i * 2654435761 >> 5) & m for i in range(n)]
        for prog, vals in (([("rle", n)], [m] * n), ([("bp", n)], bp), ([("rle", n), ("bp", n)], [m] * n + bp),
                           ([("bp", n), ("rle", n)], bp + [1] * n)):
            data = C.hybrid_encode(vals, w, prog)         # run headers of three bytes
            for cap in _caps(len(vals)):
                for mode in ("length", "prefix"):
                    raw = data if mode == "length" else struct.pack("<I", len(data)) + data
                    big, out = _obuf(np, cap * isz)
                    o = ce.NumpyIO(out)
                    ce.read_rle_bit_packed_hybrid(ce.NumpyIO(_ibuf(np, raw)), w, len(data) if mode == "length" else 0, o, isz)
                    c.out(np, big, out, isz, vals, o.tell(), cap, "hybrid(prog=%s,width=%d,cap=%d,%s)" % (prog, w, cap, mode),
                          "read_rle_bit_packed_hybrid")


def _p12_bool_big(c, p, np, ce):
    from mc.specpq import codecs as C
    from fastparquet import encoding as enc
    for n in (BIG_N, BIG_N + 1):
        vals = [(i * 2654435761 >> 7) & 1 for i in range(n)]
        data = C.bitpack(vals, 1)
        for cap in _caps(n):
            big, out = _obuf(np, cap)
            o = ce.NumpyIO(out)
            ce.read_bitpacked1(ce.NumpyIO(_ibuf(np, data)), n, o)
            c.out(np, big, out, 1, vals, o.tell(), cap, "read_bitpacked1(n=%d,cap=%d)" % (n, cap), "read_bitpacked1")
        got = enc.read_plain_boolean(bytes(data), n)
        c.calls += 1
        if got.tolist() != [bool(v) for v in vals]:
            c.bad("counter_wrong_value", "read_plain_boolean(n=%d)" % n, fn="read_plain_boolean")


def _p12_delta_big(c, p, np, ce):
    from mc.specpq import codecs as C
    lv = p["longval"]
    bits, isz = (64, 8) if lv else (32, 4)
    n = BIG_N                                   # 69999 deltas: not 1 modulo a block size
    for block, mini in ((128, 4), (1024, 4)):
        vals = [i * 3 + (i * 2654435761 >> 9) % 5 - 100000 for i in range(n)]
        data = C.delta_encode(vals, bits, block, mini, None)
        for cap in (n, n + 1):
            big, out = _obuf(np, cap * isz)
            o = ce.NumpyIO(out)
            ce.delta_binary_unpack(ce.NumpyIO(_ibuf(np, data)), o, lv)
            c.out(np, big, out, isz, [v & ((1 << bits) - 1) for v in vals], o.tell(), cap,
                  "delta_binary_unpack(count=%d,block=%d/%d,cap=%d)" % (n, block, mini, cap), "delta_binary_unpack")


def _p12_byte_array_big(c, p, np, ce):
    from mc.specpq import codecs as C
    from fastparquet import speedups as sp
    n = BIG_N
    for utf in (0, 1):
        items = [bytes([97 + i % 26]) for i in range(n)]
        spec = C.plain_encode(items, "BYTE_ARRAY")
        packed = sp.pack_byte_array(list(items))
        c.calls += 1
        if bytes(packed) != spec:
            c.bad("counter_wrong_value", "pack_byte_array of %d one-byte items" % n, fn="pack_byte_array")
        for k in _caps(n):
            got = sp.unpack_byte_array(_ibuf(np, spec), k, utf)
            c.calls += 1
            c.vals += min(k, n)
            exp = [(b.decode() if utf else b) for b in items[:k]]
            if len(got) != k or list(got[:min(k, n)]) != exp:
                c.bad("counter_wrong_value", "unpack_byte_array(%d one-byte items, n=%d, utf=%d)" % (n, k, utf), fn="unpack_byte_array")


LENS12 = list(range(0, 18)) + [31, 32, 33, 63, 64, 65]


def _p12_byte_array_lens(c, p, np, ce):
    """every small item length as the only and as the last item of an exact-size buffer"""
    from mc.specpq import codecs as C
    from fastparquet import speedups as sp
    for ln in LENS12:
        for flavour in ("bytes", "ascii", "utf2", "utf3"):
            if flavour == "bytes":
                last, utf = bytes((7 * j + ln) % 256 for j in range(ln)), 0
            elif flavour == "ascii":
                last, utf = b"x" * ln, 1
            elif flavour == "utf2":
                last, utf = ("é" * (ln // 2) + "y" * (ln % 2)).encode(), 1
            else:
                last, utf = ("中" * (ln // 3) + "z" * (ln % 3)).encode(), 1
            for head in ([], [b"12345"], [b""]):
                items = head + [last]
                spec = C.plain_encode(items, "BYTE_ARRAY")
                if bytes(sp.pack_byte_array(list(items))) != spec:
                    c.bad("wrong_value", "pack_byte_array(%r lengths)" % ([len(x) for x in items],), fn="pack_byte_array")
                k = len(items)
                for n in (k, k + 1):
                    got = sp.unpack_byte_array(_ibuf(np, spec), n, utf)
                    c.calls += 1
                    c.vals += k
                    exp = [(b.decode("utf8") if utf else b) for b in items]
                    if len(got) != n or list(got[:k]) != exp:
                        c.bad("wrong_value", "unpack_byte_array(lengths=%r,n=%d,%s)" % ([len(x) for x in items], n, flavour),
                              fn="unpack_byte_array")


def _uvarint(v):
    out = bytearray()
    while v > 127:
        out.append((v & 0x7F) | 0x80)
        v >>= 7
    out.append(v)
    return bytes(out)


def _p12_encoders_tight(c, p, np, ce):
    """the encoders at the end of their output buffer ("write_* are checked"): every varint length 1..10 with 0..12
    bytes of room behind a cursor at 0 or 3, and the bit-packing encoders with every capacity around what they
    need.  What does not fit may be dropped; nothing may be written outside the slice, the cursor stays inside it and
    what was written is a prefix of the specified encoding.  The slice lies inside a canary area and, a second time,
    is an exact-size heap allocation of its own (the sanitiser's redzone)."""
    from mc.specpq import codecs as C
    vals = [0, 1, 127] + [1 << (7 * k) for k in range(1, 10)] + [(1 << (7 * k)) - 1 for k in range(2, 10)] + [(1 << 64) - 1]
    for v in vals:
        enc = _uvarint(v)
        for start in (0, 3):
            for room in range(0, 13):
                what = "encode_unsigned_varint(%d: %d bytes) with %d byte(s) of room behind cursor %d" % (v, len(enc), room, start)
                for exact in (False, True):
                    if exact:
                        big = out = np.empty(max(start + room, 1), dtype=np.uint8)[:start + room]
                        out[:] = CANARY
                    else:
                        big, out = _obuf(np, start + room)
                    o = ce.NumpyIO(out)
                    o.seek(start)
                    ce.encode_unsigned_varint(v, o)
                    c.calls += 1
                    c.vals += 1
                    if not exact and not bool((big[:32] == CANARY).all() and (big[32 + len(out):] == CANARY).all()):
                        c.bad("canary_overwritten", what + ": bytes outside the output slice were written",
                              fn="encode_unsigned_varint")
                    if o.tell() > start + room:
                        c.bad("cursor_past_end", what + ": cursor at %d, the buffer has %d bytes" % (o.tell(), start + room),
                              fn="encode_unsigned_varint")
                    got = bytes(out[start:min(o.tell(), start + room)])
                    if not enc.startswith(got) or (room >= len(enc) and got != enc):
                        c.bad("wrong_value", what + ": wrote %s, the encoding is %s" % (got.hex(), enc.hex()),
                              fn="encode_unsigned_varint")
                    if bytes(out[:start]) != bytes([CANARY]) * start:
                        c.bad("canary_overwritten", what + ": bytes before the cursor were written", fn="encode_unsigned_varint")
    for n, w in ((1, 1), (8, 1), (9, 3), (16, 8), (24, 9), (520, 1), (1030, 8)):
        arr = np.array([(i * 5 + 1) % (1 << w) for i in range(n)], dtype=np.int32)
        spec = _uvarint(((n + 7) // 8) << 1 | 1) + C.bitpack([int(x) for x in arr] + [0] * (-n % 8), w)[:(n * w + 7) // 8]
        for fn, withlen in (("encode_bitpacked", 0), ("encode_rle_bp", 0), ("encode_rle_bp", 1)):
            need = len(spec) + 4 * withlen
            for cap in sorted({0, 1, 2, 3, 4, 5, 6, need - 2, need - 1, need, need + 1} - {-1, -2}):
                what = "%s(n=%d,width=%d) into %d bytes (needs %d)" % (fn, n, w, cap, need)
                for exact in (False, True):
                    if exact:
                        big = out = np.empty(max(cap, 1), dtype=np.uint8)[:cap]
                        out[:] = CANARY
                    else:
                        big, out = _obuf(np, cap)
                    o = ce.NumpyIO(out)
                    try:
                        if fn == "encode_bitpacked":
                            ce.encode_bitpacked(arr, w, o)
                        else:
                            ce.encode_rle_bp(arr, w, o, withlen)
                    except Exception:
                        pass        # a refusal is fine
                    c.calls += 1
                    c.vals += n
                    if not exact and not bool((big[:32] == CANARY).all() and (big[32 + len(out):] == CANARY).all()):
                        c.bad("canary_overwritten", what + ": bytes outside the output slice were written", fn=fn)
                    if cap >= need and bytes(out[4 * withlen:need]) != spec:
                        c.bad("wrong_value", what + ": wrote %s..., the encoding is %s..." % (
                            bytes(out[4 * withlen:need])[:12].hex(), spec[:12].hex()), fn=fn)


# ---------------------------------------------------------------------------- W: native write path, self-made read paths
def run_written12(point):
    """one fastparquet write and read per column kind: array_encode_utf8 / pack_byte_array / the writer's level and
    dictionary encoders / to_bytes of real structures, and the reader's fast paths for files it wrote itself.
    Exceptions and values are other properties' business."""
    import os
    import pandas as pd
    import fastparquet
    from mc import alphabets as A, wr
    from mc.scratch import scratch
    kind, v = point["colkind"], point["v"]
    d = scratch()
    files = 0
    for pat in (["none", "alt", "all"] if kind in A.NULLABLE_KINDS else ["none"]):
        for n in (9, 65):
            for scheme in ("simple", "hive"):
                try:
                    df = pd.DataFrame({"c": A.series(kind, n, pat), "k": A.series("int64", n, "none", 1, "k")})
                except Exception:
                    continue
                path = os.path.join(d, "w%d%s%s" % (n, pat, scheme))
                try:
                    with wr.PageCfg(v, wr.tiny_page_size(df, 4)):
                        fastparquet.write(path, df, file_scheme=scheme, row_group_offsets=[0, n // 2],
                                          write_index=False, stats=True, compression="SNAPPY" if n == 65 else None)
                    pf = fastparquet.ParquetFile(path)
                    pf.to_pandas()
                    files += 1
                    if pf.categories:
                        pf.to_pandas(categories={})
                except Exception:
                    continue
    return {"ok": True, "outcome": "in_bounds", "nontrivial": files > 0, "counts": {"files": files}}


LEVEL_TEXT = ("The same finite lattices that decide C11 and C10 (and C03's width, multi-page, codec and categorical "
              "lattices, C15's nested lattice, one write+read per column kind, counts above 2^16 and the buffer-sizing "
              "points of the metadata serialiser) are executed against an "
              "address- and undefined-behaviour-sanitised build of the two extension modules compiled from the "
              "working tree, inside a crash-containing pool that attributes every abort to one input; aborted cells "
              "are then run to their end under a recovering build so that a recorded defect does not hide what "
              "follows it in the cell. Absence of "
              "reports over the whole lattice is the strongest statement available without a proof of the C code.")
LEVEL_NOTE = ("Trusted: clang 14 ASan/UBSan runtime, CPython/numpy under LD_PRELOAD with PYTHONMALLOC=malloc. Alignment "
              "checks disabled on purpose. Only code reached by the lattices is covered. Known findings are matched on "
              "sanitizer, error and function, so a different report in the same cell is a violation.")
TECHNIQUE = "bounded exhaustive enumeration re-executed under ASan+UBSan with crash attribution per input"
