"""C12 - native code stays inside its buffers and the process never crashes.

The C11 (complete), C10 and C03 (quick-size) drivers are executed again against
the ASan+UBSan build of cencoding.c / speedups.c.  A point passes iff the worker
neither dies (signal, sanitizer report) nor reports a canary violation; value
disagreements are C03/C10/C11's business, not this property's.
"""
import re

ID = "C12"
LEVEL = "exploration"
FLAVOUR = "asan"
TIMEOUT = 300
RULE = ("the complete C11 primitive lattice, the C10 thrift lattice (incl. payloads above the 500000-byte "
        "serialisation buffer) and the C03 foreign-file lattices D1 (dictionary index widths 0..32) and D3 "
        "(delta miniblock widths 0..64) re-executed under clang ASan+UBSan (alignment check off) with "
        "exact-size heap buffers; a point is non-trivial when native code processed >= 1 value/byte")
ASSUMPTIONS = ["sanitiser coverage is of the C generated from the .pyx present in the working tree",
               "memory errors that stay inside one numpy allocation are seen only through canaries",
               "unaligned little-endian loads are intended (alignment check disabled)"]


def explore(run, tier):
    from mc.props import C11, C10
    pts11 = C11.points(tier)
    if tier != "thorough":
        # every crash costs a worker restart under ASan: in the quick tier the region with recorded defects
        # (delta miniblock widths >= 29) is represented by its boundary widths only
        pts11 = [p for p in pts11 if not (p["prim"] == "delta" and p["width"] >= 29
                                          and p["width"] not in (29, 32, 33, 56, 57, 64))]
    run.lattice("C11-primitives", pts11, "run_c11")
    I = C10.idl()
    pts = C10.struct_points(I, tier) + C10.nesting_points(tier)
    run.lattice("C10-thrift", pts, "run_c10")
    big = C10.big_points("thorough")
    run.lattice("C10-big", big, "run_c10")
    try:
        from mc.props import C03
    except ImportError:
        C03 = None
    if C03 is not None:
        pts03 = C03.points_native(tier)
        if tier != "thorough":
            pts03 = [p for p in pts03 if not (p["d"] == "D1" and (p.get("cats") or p["enc"] == "PLAIN_DICTIONARY"))]
        run.lattice("C03-D1-D3", pts03, "run_c03")


def _sanitizer(log):
    m = re.search(r"SUMMARY: AddressSanitizer: ([\w-]+) \S+ in (\w+)", log)
    if m:
        return {"sanitizer": "asan", "error": m.group(1), "func": _short(m.group(2))}
    m = re.search(r"ERROR: AddressSanitizer: ([\w-]+)", log)
    if m:
        kind = m.group(1)
        f = re.search(r"#\d+ 0x[0-9a-f]+ in (__pyx\w+|\w+)", log[m.end():])
        func = f.group(1) if f else "?"
        fr = re.findall(r"#\d+ 0x[0-9a-f]+ in (__pyx_\w+)", log[m.end():])
        if fr:
            func = fr[0]
        return {"sanitizer": "asan", "error": kind, "func": _short(func)}
    m = re.search(r"runtime error: ([^\n]+)", log)
    if m:
        msg = re.sub(r"-?\d+", "N", m.group(1))[:60]
        loc = re.search(r"(\w+\.c):(\d+):\d+: runtime error", log)
        fr = re.findall(r"#\d+ 0x[0-9a-f]+ in (__pyx_\w+)", log[m.end():])
        return {"sanitizer": "ubsan", "error": msg, "func": _short(fr[0]) if fr else "?"}
    return {"sanitizer": "none", "error": "died", "func": "?"}


def _short(f):
    f = re.sub(r"^__pyx_(f|pf|pw|fuse_\d+)?_*", "", f)
    f = re.sub(r"^\d+fastparquet_\d+(cencoding|speedups)_", "", f)
    f = re.sub(r"^\d+", "", f)
    return f[:60]


def crash_sig(point, res):
    s = _sanitizer(res.get("log_tail", ""))
    s["symptom"] = res["outcome"]
    s["driver"] = point.get("prim") or point.get("kind") or point.get("d")
    for k in ("width", "itemsize", "longval", "series", "where", "struct", "count"):
        if k in point:
            s[k] = point[k]
    if "n" in point and point.get("kind") == "big":
        s["size_class"] = ">500000" if point["n"] > 500000 else "<=500000"
    return s


def _filter(res, driver):
    """keep only what C12 judges: canaries (crashes never reach here)"""
    sigs = res.get("sig") or []
    if isinstance(sigs, dict):
        sigs = [sigs]
    mine = [dict(s, driver=driver) for s in sigs if "canary" in str(s.get("symptom"))]
    if res.get("outcome") == "harness_error":
        return res
    out = {"ok": not mine, "outcome": "in_bounds" if not mine else "canary_overwritten",
           "nontrivial": bool(res.get("nontrivial")), "counts": res.get("counts"),
           "detail": res.get("detail", "") if mine else ""}
    if mine:
        out["sig"] = mine
    return out


def run_c11(point):
    from mc.props import C11
    return _filter(C11.run(point), point["prim"])


def run_c10(point):
    from mc.props import C10
    return _filter(C10.run(point), "thrift")


def run_c03(point):
    from mc.props import C03
    return _filter(C03.run(point), "c03")


LEVEL_TEXT = ("The same finite lattices that decide C11 and C10 (and C03's width lattices) are executed against an "
              "address- and undefined-behaviour-sanitised build of the two extension modules compiled from the "
              "working tree, inside a crash-containing pool that attributes every abort to one input. Absence of "
              "reports over the whole lattice is the strongest statement available without a proof of the C code.")
LEVEL_NOTE = ("Trusted: clang 14 ASan/UBSan runtime, CPython/numpy under LD_PRELOAD. Alignment checks disabled "
              "on purpose. Only code reached by the lattices is covered.")
TECHNIQUE = "bounded exhaustive enumeration re-executed under ASan+UBSan with crash attribution per input"
