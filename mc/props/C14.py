"""C14 - opening or merging many files yields their concatenation."""
import itertools

ID = "C14"
LEVEL = "exploration"
FLAVOUR = "plain"
TIMEOUT = 600
RULE = ("file alphabet: 5 single files with the same columns (3 / 1 / 0 / 3 / 4 rows, one with two row groups, "
        "categorical label sets identical / disjoint / overlapping, codecs) and 3 hive sub-datasets; cell = "
        "directory shape {flat, hive k=v, drill, two-level hive k=v/m=w, two-level drill} x entry {list of paths, list of ParquetFile objects, directory "
        "without _metadata, glob, merge() then re-open} x verify {False, True} x root {inferred, given}; inside: "
        "every ordered list of 1..3 distinct files (quick) / 1..4 (thorough); lists of >= 3 take the "
        "footer-gathering fast path, shorter ones and verify=True the legacy path; plus lists with one "
        "schema-incompatible file under verify=True (must raise). Oracle: concatenation, in list order (sorted path "
        "order for directory / glob), of the individual reads; total row count; partition columns from directory "
        "names; categoricals by label; non-trivial = a dataset with >= 1 row compared")
ASSUMPTIONS = ["with an inferred root, partition columns are judged only when the listed files lie in >= 2 distinct "
               "top-level directories (documented ambiguity)", "a path is not repeated inside one list"]

KEYS = [1, 2, 1, 3, 2]
# second directory level (shapes hive2 / drill2): constant below a varying first level for some pairs of files
# (files 0,1,3: m=7) and varying below a constant first level for others (files 0,2: k=1, m=7/8)
KEYS2 = [7, 7, 8, 7, 8]
DEPTH = {"flat": 0, "hive": 1, "drill": 1, "hive2": 2, "drill2": 2}


def points(tier):
    pts = []
    for shape in ("flat", "hive", "drill", "hive2", "drill2"):
        for entry in ("paths", "objects", "dir", "glob", "merge"):
            if DEPTH[shape] == 2 and entry == "objects":
                continue
            for verify in (False, True):
                for root in ("inferred", "given"):
                    if entry in ("dir", "glob") and root == "given" and shape == "flat":
                        continue
                    pts.append({"shape": shape, "entry": entry, "verify": verify, "root": root,
                                "maxlen": 4 if tier == "thorough" else 3})
    for n in (2, 3):
        for verify in (False, True):
            pts.append({"shape": "subdatasets", "entry": "paths", "verify": verify, "root": "inferred", "maxlen": n})
    pts.append({"shape": "incompatible", "entry": "paths", "verify": True, "root": "inferred", "maxlen": 3})
    return pts


def explore(run, tier):
    run.lattice("many-files", points(tier), "run")


def crash_sig(point, res):
    return {"shape": point["shape"], "entry": point["entry"], "verify": point["verify"], "symptom": res["outcome"]}


def make_files(d, shape):
    """-> list of (path, rows) ; rows = list of (a, s, c) tuples"""
    import os
    import pandas as pd
    import fastparquet
    specs = [
        ([(1, "x", "u"), (2, None, "v"), (3, "z", "u")], ["u", "v"], None, None),
        ([(4, "w", "w")], ["w"], None, None),
        ([], ["u", "v"], None, None),
        ([(5, "q", "v"), (6, "r", "w"), (7, None, "v")], ["v", "w"], "SNAPPY", None),
        ([(8, "a", "u"), (9, "b", "v"), (10, "c", "u"), (11, "d", "v")], ["u", "v"], None, [0, 2]),
    ]
    out = []
    for i, (rows, cats, comp, rgo) in enumerate(specs):
        df = pd.DataFrame({"a": pd.Series([r[0] for r in rows], dtype="int64"),
                           "s": pd.Series([r[1] for r in rows], dtype=object),
                           "c": pd.Categorical([r[2] for r in rows], categories=cats)})
        if shape == "flat":
            sub = ""
        elif shape == "hive":
            sub = "k=%d" % KEYS[i]
        elif shape == "drill":
            sub = "%d" % KEYS[i]
        elif shape == "hive2":
            sub = os.path.join("k=%d" % KEYS[i], "m=%d" % KEYS2[i])
        else:
            sub = os.path.join("%d" % KEYS[i], "%d" % KEYS2[i])
        os.makedirs(os.path.join(d, "root", sub), exist_ok=True)
        path = os.path.join(d, "root", sub, "f%d.parquet" % i)
        fastparquet.write(path, df, compression=comp, row_group_offsets=rgo, write_index=False)
        out.append((path, rows, (KEYS[i], KEYS2[i])))
    return out


def read_rows(pf, pcols):
    from mc import oracles as O
    df = pf.to_pandas()
    cols = {c: O.series_to_list(df[c]) for c in df.columns}
    rows = [(cols["a"][j], cols["s"][j], cols["c"][j]) for j in range(len(df))]
    keys = [cols.get(pc) for pc in pcols]
    return rows, keys, df


def run(p):
    import glob as _glob
    import os
    import shutil
    import fastparquet
    from fastparquet import writer
    from mc.scratch import scratch
    shape, entry, verify, root_mode, maxlen = p["shape"], p["entry"], p["verify"], p["root"], p["maxlen"]
    if shape == "subdatasets":
        return run_sub(p)
    if shape == "incompatible":
        return run_incompatible(p)
    sigs = {}
    detail = [""]
    ctx = {}
    datasets = nontriv = 0

    def bad(symptom, msg, **extra):
        s = {"shape": shape, "entry": entry, "verify": verify, "root": root_mode, "symptom": symptom}
        s.update(ctx)
        s.update(extra)
        k = repr(sorted(s.items(), key=str))
        if k not in sigs:
            sigs[k] = s
            if not detail[0]:
                detail[0] = msg

    d = scratch()
    files = make_files(d, shape)
    rootdir = os.path.join(d, "root")
    pcols = {"flat": [], "hive": ["k"], "drill": ["dir0"], "hive2": ["k", "m"], "drill2": ["dir0", "dir1"]}[shape]
    lists = []
    for n in range(1, maxlen + 1):
        lists += list(itertools.permutations(range(5), n))
    if entry in ("dir", "glob"):
        lists = [tuple(range(5))]      # the directory content is what it is
    for lst in lists:
        paths = [files[i][0] for i in lst]
        order = list(lst)
        ctx.clear()
        ctx.update({"nfiles": len(lst), "sorted": list(lst) == sorted(lst), "path": "fast" if (len(lst) >= 3 and not verify and entry in ("paths", "dir", "glob", "merge")) else "legacy"})
        what = "%s %s verify=%s root=%s files=%r" % (shape, entry, verify, root_mode, list(lst))
        kw = {"verify": verify}
        if root_mode == "given":
            kw["root"] = rootdir
        try:
            if entry == "paths":
                pf = fastparquet.ParquetFile(paths, **kw)
            elif entry == "objects":
                pf = fastparquet.ParquetFile([fastparquet.ParquetFile(x) for x in paths], **kw)
            elif entry == "dir":
                pf = fastparquet.ParquetFile(rootdir, **kw)
                order = sorted(range(5), key=lambda i: files[i][0])
            elif entry == "glob":
                pat = os.path.join(rootdir, "/".join(["*"] * DEPTH[shape] + ["*.parquet"]))
                pf = fastparquet.ParquetFile(pat, **kw)
                order = sorted(range(5), key=lambda i: files[i][0])
            elif entry == "merge":
                for f in ("_metadata", "_common_metadata"):
                    for base in {os.path.dirname(x) for x in paths} | {rootdir}:
                        try:
                            os.unlink(os.path.join(base, f))
                        except OSError:
                            pass
                mk = {"verify_schema": verify}
                if root_mode == "given":
                    mk["root"] = rootdir
                out = writer.merge(paths, **mk)
                pf = fastparquet.ParquetFile(out.fn)
        except Exception as e:
            bad("open_raised", "%s: %s: %s" % (what, type(e).__name__, str(e)[:160]), exc=type(e).__name__)
            continue
        datasets += 1
        exp = [r for i in order for r in files[i][1]]
        try:
            rows, keys, df = read_rows(pf, pcols)
        except Exception as e:
            bad("read_raised", "%s: %s: %s" % (what, type(e).__name__, str(e)[:160]), exc=type(e).__name__)
            continue
        if exp:
            nontriv += 1
        if pf.count() != len(exp) or len(rows) != len(exp):
            bad("row_count", "%s: count()=%d, %d rows read, the files hold %d" % (what, pf.count(), len(rows), len(exp)))
            continue
        if rows != exp:
            col = "order" if sorted(rows, key=repr) == sorted(exp, key=repr) else next(
                ("asc"[ci] for ci in range(3) if [r[ci] for r in rows] != [e[ci] for e in exp]), "?")
            bad("content", "%s: rows %r, concatenation of the files %r" % (what, rows[:8], exp[:8]), col=col)
            continue
        if pcols and exp:      # files without row groups carry no paths to derive partition values from
            # only files with rows contribute paths; with an inferred root every level is derivable when those
            # files lie in >= 2 distinct top-level directories
            distinct_dirs = len({files[i][2][0] for i in order if files[i][1]})
            if root_mode == "given" or distinct_dirs >= 2:
                for lvl, pcol in enumerate(pcols):
                    expk = [files[i][2][lvl] for i in order for r in files[i][1]]
                    if keys[lvl] is None:
                        bad("partition_column", "%s: no partition column %s in the frame (columns %r)" % (what, pcol, list(df.columns)), level=lvl)
                    else:
                        got = [int(x) if isinstance(x, str) and x.isdigit() else x for x in keys[lvl]]
                        if got != expk:
                            bad("partition_column", "%s: partition values %s=%r, directories say %r" % (what, pcol, got, expk), level=lvl)
    ok = not sigs
    return {"ok": ok, "outcome": "concatenation" if ok else "differs", "nontrivial": nontriv > 0,
            "counts": {"datasets": datasets, "with_rows": nontriv}, "sig": list(sigs.values()) or None, "detail": detail[0]}


def run_sub(p):
    """lists of hive sub-datasets (directories with their own _metadata)"""
    import os
    import pandas as pd
    import fastparquet
    from mc.scratch import scratch
    from mc import oracles as O
    n, verify = p["maxlen"], p["verify"]
    d = scratch()
    subs = []
    for i in range(3):
        df = pd.DataFrame({"a": pd.Series([i * 10 + j for j in range(3)], dtype="int64"),
                           "s": pd.Series(["d%d_%d" % (i, j) for j in range(3)], dtype=object)})
        path = os.path.join(d, "sub%d" % i)
        fastparquet.write(path, df, file_scheme="hive", row_group_offsets=[0, 2], write_index=False)
        subs.append((path, list(zip(df["a"], df["s"]))))
    sigs = {}
    detail = [""]
    datasets = 0
    for lst in itertools.permutations(range(3), n):
        what = "subdatasets verify=%s list=%r" % (verify, list(lst))
        try:
            pf = fastparquet.ParquetFile([subs[i][0] for i in lst], verify=verify)
            df = pf.to_pandas()
            rows = list(zip(O.series_to_list(df["a"]), O.series_to_list(df["s"])))
        except Exception as e:
            s = {"shape": "subdatasets", "verify": verify, "symptom": "open_raised", "exc": type(e).__name__}
            sigs.setdefault(repr(s), s)
            detail[0] = detail[0] or "%s: %s: %s" % (what, type(e).__name__, str(e)[:150])
            continue
        datasets += 1
        exp = [r for i in lst for r in subs[i][1]]
        if rows != exp:
            s = {"shape": "subdatasets", "verify": verify, "symptom": "content"}
            sigs.setdefault(repr(s), s)
            detail[0] = detail[0] or "%s: rows %r, expected %r" % (what, rows, exp)
    ok = not sigs
    return {"ok": ok, "outcome": "concatenation" if ok else "differs", "nontrivial": datasets > 0,
            "counts": {"datasets": datasets}, "sig": list(sigs.values()) or None, "detail": detail[0]}


def run_incompatible(p):
    """verify=True must reject a file whose schema differs"""
    import os
    import pandas as pd
    import fastparquet
    from mc.scratch import scratch
    d = scratch()
    files = make_files(d, "flat")
    odd = os.path.join(d, "root", "odd.parquet")
    fastparquet.write(odd, pd.DataFrame({"a": [1.5, 2.5], "s": ["x", "y"], "zz": [1, 2]}), write_index=False)
    sigs = {}
    detail = [""]
    n = 0
    for pos in range(3):
        for others in itertools.permutations([0, 1, 3], 2):
            paths = [files[i][0] for i in others]
            paths.insert(pos, odd)
            if pos == 0:
                continue     # the first file defines the schema
            n += 1
            try:
                fastparquet.ParquetFile(paths, verify=True)
            except Exception:
                continue
            s = {"shape": "incompatible", "symptom": "accepted", "pos": pos}
            sigs.setdefault(repr(s), s)
            detail[0] = detail[0] or "a file with a different schema at position %d was accepted under verify=True" % pos
    ok = not sigs
    return {"ok": ok, "outcome": "rejected" if ok else "accepted", "nontrivial": n > 0,
            "counts": {"datasets": n}, "sig": list(sigs.values()) or None, "detail": detail[0]}


LEVEL_TEXT = ("Bounded-exhaustive lattice: every ordered list of up to 3 (quick) / 4 (thorough) of five single files with "
              "different row counts, row-group counts, codecs and categorical label sets, in flat / hive / drill "
              "directory shapes, opened through five entry points with and without verification and explicit root "
              "(covering both the legacy and the footer-gathering code path for every shape); the result is compared "
              "with the concatenation of the individual reads.")
LEVEL_NOTE = ("Trusted: pandas value extraction. Lists do not repeat a path; partition columns judged under the documented "
              "root-inference rule.")
TECHNIQUE = "bounded exhaustive enumeration of ordered file lists x directory shapes x entry points vs concatenation of single reads"
