"""C14 - opening or merging many files yields their concatenation."""
import itertools

ID = "C14"
LEVEL = "exploration"
FLAVOUR = "plain"
TIMEOUT = 600
RULE = ("file alphabet: 5 single files with the same columns (3 / 1 / 0 / 3 / 4 rows, one with two row groups, "
        "categorical label sets identical / disjoint / overlapping, one NULL in the categorical column, codecs) and 3 "
        "hive sub-datasets; cell = "
        "directory shape {flat, hive k=v, drill, two-level hive k=v/m=w, two-level drill} x entry {list of paths, list of ParquetFile objects, directory "
        "without _metadata, glob, merge() then re-open, single path + root} x verify {False, True} x root {inferred, given, "
        "given with a trailing slash}; inside: "
        "every ordered list of 1..3 distinct files (quick) / 1..4 (thorough); lists of >= 3 take the "
        "footer-gathering fast path, shorter ones and verify=True the legacy path. Path spelling {absolute, relative to "
        "the working directory, './'-prefixed, bare names in the working directory} x shapes flat / hive / two-level hive "
        "(verify=False in quick, both in thorough); memory file-system with three spellings x {fs=, open_with=}. Directory content: the five files plus stray non-Parquet files, a "
        "_common_metadata and one '.parq' file; every directory holding a subset of 1..3 of the files. Sub-datasets "
        "{plain, plain with a first sub-dataset of zero rows, partitioned in key=value directories, partitioned in plainly named directories, categorical, directory of single files summarised by merge() through the fast and the legacy path} x {paths, objects, merge} x verify x root, lists of 2..3; lists mixing files and "
        "sub-datasets. Schema-incompatible file (7 kinds: one dtype, one name, one extra column, column order, text/bytes, "
        "everything) at every position x {paths, objects, merge() default, directory, glob} under verification (must raise). "
        "Categorical label unions of 127 / 128 / 300 labels (quick) and 32768 / 40000 (thorough) from files below each width; "
        "default and stored index; footer of a later file sized -2..+10 bytes around the fast path's tail-fetch size. "
        "Oracle: concatenation, in list order (sorted path "
        "order for directory / glob), of the rows written; total row count from count(), the frame and the footer's "
        "num_rows; row-group count; dtypes of the int and categorical column; fresh RangeIndex; partition columns from "
        "directory names and, for k=v directories, count() under a filter on them; categoricals by label; for merge() the _metadata bytes "
        "(spec-level reader: num_rows, file_path of every row group) and _common_metadata (schema, no row groups); "
        "non-trivial = a dataset with >= 1 row compared")
ASSUMPTIONS = ["with an inferred root, partition columns are judged only when the listed files lie in >= 2 distinct "
               "top-level directories (documented ambiguity); a directory opened by name is its own root and is always judged", "a path is not repeated inside one list",
               "a file that differs only in pandas-level typing (categorical vs plain text, nullability) has the same "
               "Parquet schema and is not expected to be rejected"]

KEYS = [1, 2, 1, 3, 2]
# second directory level (shapes hive2 / drill2): constant below a varying first level for some pairs of files
# (files 0,1,3: m=7) and varying below a constant first level for others (files 0,2: k=1, m=7/8)
KEYS2 = [7, 7, 8, 7, 8]
DEPTH = {"flat": 0, "hive": 1, "drill": 1, "hive2": 2, "drill2": 2}
NRG = [1, 1, 0, 1, 2]      # row groups per file
PCOLS = {"flat": [], "hive": ["k"], "drill": ["dir0"], "hive2": ["k", "m"], "drill2": ["dir0", "dir1"]}
ODDS = ["all", "a_float", "a_int32", "renamed", "extra", "order", "s_bytes"]


def points(tier):
    pts = []
    ml = 4 if tier == "thorough" else 3
    for shape in ("flat", "hive", "drill", "hive2", "drill2"):
        for entry in ("paths", "objects", "dir", "glob", "merge"):
            if DEPTH[shape] == 2 and entry == "objects":
                continue
            for verify in (False, True):
                for root in ("inferred", "given"):
                    if entry in ("dir", "glob") and root == "given" and shape == "flat":
                        continue
                    pts.append({"shape": shape, "entry": entry, "verify": verify, "root": root,
                                "maxlen": ml})
    # entry: one path string + root (lists of one file)
    for shape in ("flat", "hive", "drill", "hive2", "drill2"):
        pts.append({"shape": shape, "entry": "single", "verify": False, "root": "given", "maxlen": 1})
    pts.append({"shape": "hive", "entry": "single", "verify": True, "root": "given_slash", "maxlen": 1})
    # root spelled with a trailing slash
    for entry in ("paths", "merge", "dir"):
        for verify in (False, True):
            pts.append({"shape": "hive", "entry": entry, "verify": verify, "root": "given_slash", "maxlen": ml})
    # path spelling (verify=True only changes the code path of lists of >= 3: thorough tier)
    verifies = (False, True) if tier == "thorough" else (False,)
    for shape, entries in (("flat", ("paths", "objects", "merge", "dir", "glob")),
                           ("hive", ("paths", "objects", "merge", "dir", "glob", "single")),
                           ("hive2", ("paths", "merge"))):
        for entry in entries:
            for verify in verifies:
                for root in ("inferred", "given"):
                    if entry in ("dir", "glob") and root == "given" and shape == "flat":
                        continue
                    if entry == "single" and (root == "inferred" or verify):
                        continue
                    pts.append({"shape": shape, "entry": entry, "verify": verify, "root": root,
                                "maxlen": 1 if entry == "single" else ml, "spell": "rel"})
    for shape in ("flat", "hive"):
        for verify in verifies:
            for root in ("inferred", "given"):
                pts.append({"shape": shape, "entry": "paths", "verify": verify, "root": root, "maxlen": ml,
                            "spell": "dot"})
    for entry in ("paths", "merge"):
        for verify in verifies:
            pts.append({"shape": "flat", "entry": entry, "verify": verify, "root": "inferred", "maxlen": ml,
                        "spell": "bare"})
    # directory content
    for shape in ("flat", "hive", "drill", "hive2", "drill2"):
        for entry in ("dir", "glob"):
            for verify in (False, True):
                pts.append({"shape": shape, "entry": entry, "verify": verify, "root": "inferred", "maxlen": 3,
                            "dirvar": "strays"})
                pts.append({"shape": shape, "entry": entry, "verify": verify, "root": "inferred", "maxlen": 3,
                            "dirvar": "subsets"})
    # sub-datasets
    for kind in ("plain", "part", "cat", "merged", "part_plain", "plain0"):
        for entry in ("paths", "objects", "merge"):
            for verify in (False, True):
                for root in ("inferred", "given"):
                    pts.append({"shape": "subdatasets", "kind": kind, "entry": entry, "verify": verify, "root": root,
                                "maxlen": 3})
    pts.append({"shape": "mixed", "entry": "paths", "verify": False, "root": "inferred", "maxlen": 3})
    for entry in ("paths", "objects", "merge", "dir", "glob"):
        pts.append({"shape": "incompatible", "entry": entry, "verify": True, "root": "inferred", "maxlen": 3})
    pts.append({"shape": "catwidth", "entry": "paths", "verify": False, "root": "inferred", "maxlen": 3,
                "sizes": [[63, 64], [64, 64], [127, 1], [100, 100, 100]]})
    if tier == "thorough":
        pts.append({"shape": "catwidth", "entry": "paths", "verify": False, "root": "inferred", "maxlen": 3,
                    "sizes": [[32767, 1], [20000, 20000], [16000, 16000, 16000]]})
    for kind in ("range", "stored"):
        for entry in ("paths", "merge"):
            pts.append({"shape": "index", "kind": kind, "entry": entry, "verify": False, "root": "inferred", "maxlen": 3})
    pts.append({"shape": "footer", "entry": "paths", "verify": False, "root": "inferred", "maxlen": 3})
    pts.append({"shape": "memfs", "entry": "paths", "verify": False, "root": "inferred", "maxlen": ml})
    return pts


def explore(run, tier):
    run.lattice("many-files", points(tier), "run")


def crash_sig(point, res):
    return {"shape": point["shape"], "entry": point["entry"], "verify": point["verify"], "symptom": res["outcome"]}


def make_files(d, shape):
    """-> list of (path, rows) ; rows = list of (a, s, c) tuples"""
    import os
    import pandas as pd
    import fastparquet
    specs = [
        ([(1, "x", "u"), (2, None, "v"), (3, "z", "u")], ["u", "v"], None, None),
        ([(4, "w", "w")], ["w"], None, None),
        ([], ["u", "v"], None, None),
        ([(5, "q", "v"), (6, "r", "w"), (7, None, None)], ["v", "w"], "SNAPPY", None),
        ([(8, "a", "u"), (9, "b", "v"), (10, "c", "u"), (11, "d", "v")], ["u", "v"], None, [0, 2]),
    ]
    out = []
    for i, (rows, cats, comp, rgo) in enumerate(specs):
        df = pd.DataFrame({"a": pd.Series([r[0] for r in rows], dtype="int64"),
                           "s": pd.Series([r[1] for r in rows], dtype=object),
                           "c": pd.Categorical([r[2] for r in rows], categories=cats)})
        if shape == "flat":
            sub = ""
        elif shape == "hive":
            sub = "k=%d" % KEYS[i]
        elif shape == "drill":
            sub = "%d" % KEYS[i]
        elif shape == "hive2":
            sub = os.path.join("k=%d" % KEYS[i], "m=%d" % KEYS2[i])
        else:
            sub = os.path.join("%d" % KEYS[i], "%d" % KEYS2[i])
        os.makedirs(os.path.join(d, "root", sub), exist_ok=True)
        path = os.path.join(d, "root", sub, "f%d.parquet" % i)
        fastparquet.write(path, df, compression=comp, row_group_offsets=rgo, write_index=False)
        out.append((path, rows, (KEYS[i], KEYS2[i])))
    return out


def read_rows(pf, pcols):
    from mc import oracles as O
    df = pf.to_pandas()
    cols = {c: O.series_to_list(df[c]) for c in df.columns}
    rows = [(cols["a"][j], cols["s"][j], cols["c"][j]) for j in range(len(df))]
    keys = [cols.get(pc) for pc in pcols]
    return rows, keys, df


def _spec_footer(path):
    from mc.specpq import file as SF
    with open(path, "rb") as f:
        return SF.read_footer(f.read(), metadata_only=True).fmd


def check_summary_files(out_fn, file_paths, file_nrg, nrows, bad, what):
    """the bytes merge() wrote, through the spec-level reader: _metadata holds the total row count and, for every row
    group, the path of its file relative to the directory of _metadata (other column chunks: the same path or none);
    _common_metadata holds the same schema and no row groups."""
    import os
    out_fn = os.path.abspath(out_fn)
    base = os.path.dirname(out_fn)
    try:
        fmd = _spec_footer(out_fn)
    except Exception as e:
        bad("summary_unreadable", "%s: _metadata: %s: %s" % (what, type(e).__name__, str(e)[:120]), file="_metadata")
        return
    if fmd.get("num_rows") != nrows:
        bad("summary_num_rows", "%s: _metadata says num_rows=%r, the files hold %d" % (what, fmd.get("num_rows"), nrows))
    exp_paths = [os.path.relpath(p, base) for p, n in zip(file_paths, file_nrg) for _ in range(n)]
    got_first = [(rg["columns"][0].get("file_path") if rg.get("columns") else None) for rg in fmd.get("row_groups") or []]
    if got_first != exp_paths:
        bad("summary_file_path", "%s: _metadata row groups point to %r, expected %r" % (what, got_first, exp_paths))
    else:
        for rg, ep in zip(fmd.get("row_groups") or [], exp_paths):
            others = {c.get("file_path") for c in rg["columns"][1:]} - {None, ep}
            if others:
                bad("summary_file_path", "%s: a later column chunk points to %r, the first to %r" % (what, sorted(others), ep),
                    chunk="later")
                break
    cm = os.path.join(base, "_common_metadata")
    try:
        cmd = _spec_footer(cm)
    except Exception as e:
        bad("summary_unreadable", "%s: _common_metadata: %s: %s" % (what, type(e).__name__, str(e)[:120]),
            file="_common_metadata")
        return
    if cmd.get("row_groups"):
        bad("common_metadata", "%s: _common_metadata carries %d row groups" % (what, len(cmd["row_groups"])), part="row_groups")
    names = lambda m: [(e.get("name"), e.get("type"), e.get("converted_type")) for e in m.get("schema") or []]
    if names(cmd) != names(fmd):
        bad("common_metadata", "%s: _common_metadata schema %r, _metadata %r" % (what, names(cmd), names(fmd)), part="schema")


def run(p):
    shape = p["shape"]
    if shape == "subdatasets":
        return run_sub(p)
    if shape == "mixed":
        return run_mixed(p)
    if shape == "incompatible":
        return run_incompatible(p)
    if shape == "catwidth":
        return run_catwidth(p)
    if shape == "index":
        return run_index(p)
    if shape == "footer":
        return run_footer(p)
    if shape == "memfs":
        return run_memfs(p)
    import os
    cwd = os.getcwd()
    try:
        return run_lattice(p)
    finally:
        os.chdir(cwd)


def run_lattice(p):
    import os
    import shutil
    import pandas as pd
    import fastparquet
    from fastparquet import writer
    from mc.scratch import scratch
    shape, entry, verify, root_mode, maxlen = p["shape"], p["entry"], p["verify"], p["root"], p["maxlen"]
    spell = p.get("spell", "abs")
    dirvar = p.get("dirvar")
    sigs = {}
    detail = [""]
    ctx = {}
    datasets = nontriv = 0

    def bad(symptom, msg, **extra):
        s = {"shape": shape, "entry": entry, "verify": verify, "root": root_mode, "symptom": symptom}
        if spell != "abs":
            s["spell"] = spell
        if dirvar:
            s["dirvar"] = dirvar
        s.update(ctx)
        s.update(extra)
        k = repr(sorted(s.items(), key=str))
        if k not in sigs:
            sigs[k] = s
            if not detail[0]:
                detail[0] = msg

    d = scratch()
    files = make_files(d, shape)
    rootdir = os.path.join(d, "root")
    pcols = PCOLS[shape]
    suffix_glob = "*.parquet"
    if dirvar == "strays":
        # things a directory listing must skip, and the second suffix it must take
        first_dir = os.path.dirname(files[0][0])
        with open(os.path.join(rootdir, "README.txt"), "w") as f:
            f.write("not a parquet file\n")
        with open(os.path.join(first_dir, "_SUCCESS"), "w") as f:
            pass
        with open(os.path.join(first_dir, ".f0.parquet.crc"), "wb") as f:
            f.write(b"\x00\x01crc")
        with open(os.path.join(first_dir, "f0.parquet.txt"), "w") as f:
            f.write("PAR1 no PAR1")
        writer.write_common_metadata(os.path.join(rootdir, "_common_metadata"), fastparquet.ParquetFile(files[0][0]).fmd)
        newp = files[3][0][:-len(".parquet")] + ".parq"
        os.rename(files[3][0], newp)
        files[3] = (newp,) + files[3][1:]
    if spell in ("rel", "dot"):
        os.chdir(d)
    elif spell == "bare":
        os.chdir(rootdir)

    def sp(path):
        """the spelling under which a path is handed to the library"""
        if spell == "abs":
            return path
        r = os.path.relpath(path, os.getcwd())
        return "./" + r if spell == "dot" else r

    lists = []
    for n in range(1, maxlen + 1):
        lists += list(itertools.permutations(range(5), n))
    if entry in ("dir", "glob"):
        lists = [tuple(range(5))]      # the directory content is what it is
        if dirvar == "subsets":
            lists = [c for n in (1, 2, 3) for c in itertools.combinations(range(5), n)]
    for li, lst in enumerate(lists):
        use = files
        rootdir_l = rootdir
        if dirvar == "subsets":
            # a directory of its own holding just these files, at their places below its root
            rootdir_l = os.path.join(d, "s%d" % li, "root")
            use = list(files)
            for i in lst:
                np_ = os.path.join(rootdir_l, os.path.relpath(files[i][0], rootdir))
                os.makedirs(os.path.dirname(np_), exist_ok=True)
                shutil.copyfile(files[i][0], np_)
                use[i] = (np_,) + files[i][1:]
        paths = [use[i][0] for i in lst]
        order = list(lst)
        ctx.clear()
        ctx.update({"nfiles": len(lst), "sorted": list(lst) == sorted(lst), "path": "fast" if (len(lst) >= 3 and not verify and entry in ("paths", "dir", "glob", "merge")) else "legacy"})
        what = "%s %s verify=%s root=%s files=%r" % (shape, entry, verify, root_mode, list(lst))
        if spell != "abs":
            what += " spelling=" + spell
        if dirvar:
            what += " dir=" + dirvar
        kw = {"verify": verify}
        rootarg = None
        if root_mode == "given":
            rootarg = sp(rootdir_l)
        elif root_mode == "given_slash":
            rootarg = sp(rootdir_l) + "/"
        if rootarg is not None:
            kw["root"] = rootarg
        out_fn = None
        try:
            if entry == "paths":
                pf = fastparquet.ParquetFile([sp(x) for x in paths], **kw)
            elif entry == "single":
                pf = fastparquet.ParquetFile(sp(paths[0]), **kw)
            elif entry == "objects":
                pf = fastparquet.ParquetFile([fastparquet.ParquetFile(sp(x)) for x in paths], **kw)
            elif entry == "dir":
                pf = fastparquet.ParquetFile(sp(rootdir_l), **kw)
                order = sorted(lst, key=lambda i: use[i][0])
            elif entry == "glob":
                pat = os.path.join(sp(rootdir_l), "/".join(["*"] * DEPTH[shape] + [suffix_glob]))
                pf = fastparquet.ParquetFile(pat, **kw)
                order = sorted((i for i in lst if use[i][0].endswith(".parquet")), key=lambda i: use[i][0])
            elif entry == "merge":
                for f in ("_metadata", "_common_metadata"):
                    for base in {os.path.dirname(x) for x in paths} | {rootdir_l}:
                        try:
                            os.unlink(os.path.join(base, f))
                        except OSError:
                            pass
                mk = {"verify_schema": verify}
                if rootarg is not None:
                    mk["root"] = rootarg
                out = writer.merge([sp(x) for x in paths], **mk)
                out_fn = os.path.abspath(out.fn)
                pf = fastparquet.ParquetFile(out.fn)
        except Exception as e:
            bad("open_raised", "%s: %s: %s" % (what, type(e).__name__, str(e)[:160]), exc=type(e).__name__)
            continue
        datasets += 1
        exp = [r for i in order for r in use[i][1]]
        try:
            rows, keys, df = read_rows(pf, pcols)
        except Exception as e:
            bad("read_raised", "%s: %s: %s" % (what, type(e).__name__, str(e)[:160]), exc=type(e).__name__)
            continue
        if exp:
            nontriv += 1
        if pf.count() != len(exp) or len(rows) != len(exp):
            bad("row_count", "%s: count()=%d, %d rows read, the files hold %d" % (what, pf.count(), len(rows), len(exp)))
            continue
        if pf.fmd.num_rows != len(exp):
            bad("footer_num_rows", "%s: the dataset's footer says num_rows=%r, the files hold %d" % (what, pf.fmd.num_rows, len(exp)))
        if len(pf.row_groups) != sum(NRG[i] for i in order):
            bad("row_group_count", "%s: %d row groups, the files hold %d" % (what, len(pf.row_groups), sum(NRG[i] for i in order)))
        if rows != exp:
            col = "order" if sorted(rows, key=repr) == sorted(exp, key=repr) else next(
                ("asc"[ci] for ci in range(3) if [r[ci] for r in rows] != [e[ci] for e in exp]), "?")
            bad("content", "%s: rows %r, concatenation of the files %r" % (what, rows[:8], exp[:8]), col=col)
            continue
        if str(df["a"].dtype) != "int64":
            bad("dtype", "%s: column a comes back as %s, every file holds int64" % (what, df["a"].dtype), col="a")
        if exp and not isinstance(df["c"].dtype, pd.CategoricalDtype):
            bad("dtype", "%s: column c comes back as %s, every file holds a categorical" % (what, df["c"].dtype), col="c")
        if list(df.index) != list(range(len(exp))) or df.index.name is not None:
            bad("index", "%s: index %r (name %r) for files written without index" % (what, list(df.index)[:8], df.index.name))
        if out_fn is not None:
            check_summary_files(out_fn, [use[i][0] for i in order], [NRG[i] for i in order], len(exp), bad, what)
        if pcols and exp:      # files without row groups carry no paths to derive partition values from
            # only files with rows contribute partition VALUES; the inferred root is the common directory of all the
            # listed files (a file without rows counts too), so every level is derivable when the listed files lie
            # in >= 2 distinct top-level directories
            distinct_dirs = len({use[i][2][0] for i in order})
            # a directory opened by name is its own root: every level below it is a partition level
            if root_mode in ("given", "given_slash") or distinct_dirs >= 2 or entry == "dir":
                for lvl, pcol in enumerate(pcols):
                    expk = [use[i][2][lvl] for i in order for r in use[i][1]]
                    if keys[lvl] is None:
                        bad("partition_column", "%s: no partition column %s in the frame (columns %r)" % (what, pcol, list(df.columns)), level=lvl)
                    else:
                        got = [int(x) if isinstance(x, str) and x.isdigit() else x for x in keys[lvl]]
                        if got != expk:
                            bad("partition_column", "%s: partition values %s=%r, directories say %r" % (what, pcol, got, expk), level=lvl)
                        elif lvl == 0 and shape in ("hive", "hive2"):
                            # row groups are selected by their k=v directory (drill directory names are not looked at
                            # by the row-group selection, which may keep more than asked for)
                            for v in sorted(set(expk)):
                                try:
                                    n = pf.count(filters=[(pcol, "==", v)])
                                except Exception as e:
                                    bad("partition_filter", "%s: count(filters=[(%s,==,%r)]): %s: %s" % (what, pcol, v, type(e).__name__, str(e)[:100]), exc=type(e).__name__)
                                    break
                                if n != expk.count(v):
                                    bad("partition_filter", "%s: count(filters=[(%s,==,%r)])=%d, %d rows lie in that directory" % (what, pcol, v, n, expk.count(v)))
                                    break
    ok = not sigs
    return {"ok": ok, "outcome": "concatenation" if ok else "differs", "nontrivial": nontriv > 0,
            "counts": {"datasets": datasets, "with_rows": nontriv}, "sig": list(sigs.values()) or None, "detail": detail[0]}


def run_sub(p):
    """lists of hive sub-datasets (directories with their own _metadata): plain, partitioned on a column, or with a
    categorical column whose labels differ between the sub-datasets"""
    import os
    import pandas as pd
    import fastparquet
    from fastparquet import writer
    from mc.scratch import scratch
    from mc import oracles as O
    verify, entry, kind, root_mode = p["verify"], p.get("entry", "paths"), p.get("kind", "plain"), p.get("root", "inferred")
    d = scratch()
    top = os.path.join(d, "top")
    labels = [["u", "v"], ["w", "u"], ["v", "w"]]
    subs = []
    for i in range(3):
        data = {"a": pd.Series([i * 10 + j for j in range(3)], dtype="int64"),
                "s": pd.Series(["d%d_%d" % (i, j) for j in range(3)], dtype=object)}
        rows = [(i * 10 + j, "d%d_%d" % (i, j)) for j in range(3)]
        kw = {"row_group_offsets": [0, 2]}
        if kind == "plain0" and i == 0:
            # a sub-dataset without rows (its directory holds summary files only)
            data = {k: v.iloc[:0] for k, v in data.items()}
            rows = []
            kw = {}
        if kind == "cat":
            lab = [labels[i][j % 2] for j in range(3)]
            data["c"] = pd.Categorical(lab, categories=labels[i])
            rows = [r + (l,) for r, l in zip(rows, lab)]
        if kind in ("part", "part_plain"):
            data["p"] = [1, 2, 1]
            rows = [r + (pv,) for r, pv in zip(rows, [1, 2, 1])]
            rows = sorted(rows, key=lambda r: r[-1])      # one directory per value, in the order of the values
            kw = {"partition_on": ["p"]}
        # part: the sub-datasets lie in key=value directories themselves; part_plain: in plainly named ones, so
        # that the paths below the common root mix a plain level with a key=value level
        name = ("y=%d" if kind == "part" else "sub%d") % i
        path = os.path.join(top, name)
        if kind == "merged":
            # a directory of single files with the _metadata that merge() wrote for it: from three files the
            # footer-gathering path (only the first chunk of a row group names its file), from two the legacy path
            os.makedirs(path)
            frame = pd.DataFrame(data)
            cuts = [(0, 1), (1, 2), (2, 3)] if i != 1 else [(0, 2), (2, 3)]
            parts = []
            for k, (lo, hi) in enumerate(cuts):
                parts.append(os.path.join(path, "f%d.parquet" % k))
                fastparquet.write(parts[-1], frame.iloc[lo:hi], write_index=False)
            writer.merge(parts, verify_schema=False)
        else:
            fastparquet.write(path, pd.DataFrame(data), file_scheme="hive", write_index=False, **kw)
        subs.append((path, rows, i))
    cols = ["a", "s"] + (["c"] if kind == "cat" else []) + (["p"] if kind in ("part", "part_plain") else [])
    sigs = {}
    detail = [""]
    datasets = 0

    def bad(symptom, msg, **extra):
        s = {"shape": "subdatasets", "kind": kind, "entry": entry, "verify": verify, "root": root_mode, "symptom": symptom}
        s.update(extra)
        sigs.setdefault(repr(sorted(s.items())), s)
        detail[0] = detail[0] or msg

    for n in range(2, p["maxlen"] + 1):
        for lst in itertools.permutations(range(3), n):
            what = "subdatasets %s %s verify=%s root=%s list=%r" % (kind, entry, verify, root_mode, list(lst))
            paths = [subs[i][0] for i in lst]
            kw = {"root": top} if root_mode == "given" else {}
            try:
                if entry == "paths":
                    pf = fastparquet.ParquetFile(paths, verify=verify, **kw)
                elif entry == "objects":
                    pf = fastparquet.ParquetFile([fastparquet.ParquetFile(x) for x in paths], verify=verify, **kw)
                else:
                    for f in ("_metadata", "_common_metadata"):
                        try:
                            os.unlink(os.path.join(top, f))
                        except OSError:
                            pass
                    out = writer.merge(paths, verify_schema=verify, **kw)
                    pf = fastparquet.ParquetFile(out.fn)
                df = pf.to_pandas()
                rows = list(zip(*[O.series_to_list(df[c]) for c in cols]))
            except Exception as e:
                bad("open_raised", "%s: %s: %s" % (what, type(e).__name__, str(e)[:150]), exc=type(e).__name__)
                continue
            datasets += 1
            exp = [r for i in lst for r in subs[i][1]]
            if kind in ("part", "part_plain"):
                rows = [r[:-1] + (int(r[-1]) if isinstance(r[-1], str) and r[-1].isdigit() else r[-1],) for r in rows]
            if pf.count() != len(exp) or pf.fmd.num_rows != len(exp):
                bad("row_count", "%s: count()=%r, footer num_rows=%r, the sub-datasets hold %d" % (what, pf.count(), pf.fmd.num_rows, len(exp)))
            if rows != exp:
                bad("content", "%s: rows %r, expected %r" % (what, rows, exp))
                continue
            if kind == "part":
                # the directory of each sub-dataset is a partition level of its own
                expy = [subs[i][2] for i in lst for r in subs[i][1]]
                if "y" not in df.columns:
                    bad("partition_column", "%s: no column y (columns %r)" % (what, list(df.columns)))
                else:
                    goty = [int(x) if isinstance(x, str) and x.isdigit() else x for x in O.series_to_list(df["y"])]
                    if goty != expy:
                        bad("partition_column", "%s: y=%r, directories say %r" % (what, goty, expy))
    ok = not sigs
    return {"ok": ok, "outcome": "concatenation" if ok else "differs", "nontrivial": datasets > 0,
            "counts": {"datasets": datasets}, "sig": list(sigs.values()) or None, "detail": detail[0]}


def run_mixed(p):
    """lists that mix single files and hive sub-datasets lying in one directory"""
    import os
    import pandas as pd
    import fastparquet
    from mc.scratch import scratch
    from mc import oracles as O
    d = scratch()
    items = {}
    for i, name in enumerate(["sub0", "sub1", "one.parquet", "two.parquet"]):
        df = pd.DataFrame({"a": pd.Series([i * 10 + j for j in range(3)], dtype="int64"),
                           "s": pd.Series(["d%d_%d" % (i, j) for j in range(3)], dtype=object)})
        path = os.path.join(d, "top", name)
        os.makedirs(os.path.dirname(path), exist_ok=True)
        if name.startswith("sub"):
            fastparquet.write(path, df, file_scheme="hive", row_group_offsets=[0, 2], write_index=False)
        else:
            fastparquet.write(path, df, write_index=False)
        items[name] = (path, list(zip(df["a"].tolist(), df["s"].tolist())))
    sigs = {}
    detail = [""]
    datasets = 0
    for lst in (["sub0", "one.parquet"], ["one.parquet", "sub0"], ["one.parquet", "two.parquet", "sub1"],
                ["one.parquet", "sub0", "sub1"], ["sub1", "one.parquet", "two.parquet"]):
        what = "mixed list=%r" % lst
        base = {"shape": "mixed", "first": "sub" if lst[0].startswith("sub") else "file", "nitems": len(lst)}
        try:
            pf = fastparquet.ParquetFile([items[x][0] for x in lst])
        except Exception as e:
            s = dict(base, symptom="open_raised", exc=type(e).__name__)
            sigs.setdefault(repr(sorted(s.items())), s)
            detail[0] = detail[0] or "%s: %s: %s" % (what, type(e).__name__, str(e)[:150])
            continue
        try:
            df = pf.to_pandas()
            rows = list(zip(O.series_to_list(df["a"]), O.series_to_list(df["s"])))
        except Exception as e:
            s = dict(base, symptom="read_raised", exc=type(e).__name__)
            sigs.setdefault(repr(sorted(s.items())), s)
            detail[0] = detail[0] or "%s: %s: %s" % (what, type(e).__name__, str(e)[:150])
            continue
        datasets += 1
        exp = [r for x in lst for r in items[x][1]]
        if rows != exp:
            s = dict(base, symptom="content")
            sigs.setdefault(repr(sorted(s.items())), s)
            detail[0] = detail[0] or "%s: rows %r, expected %r" % (what, rows, exp)
    ok = not sigs
    return {"ok": ok, "outcome": "concatenation" if ok else "differs", "nontrivial": True,
            "counts": {"datasets": datasets}, "sig": list(sigs.values()) or None, "detail": detail[0]}


def odd_frame(kind):
    """a frame whose Parquet schema differs from the five files' (a int64, s text, c categorical text) in one respect"""
    import pandas as pd
    if kind == "all":
        return pd.DataFrame({"a": [1.5, 2.5], "s": ["x", "y"], "zz": [1, 2]})
    a = pd.Series([1, 2], dtype={"a_float": "float64", "a_int32": "int32"}.get(kind, "int64"))
    s = pd.Series([b"x", b"y"] if kind == "s_bytes" else ["x", "y"], dtype=object)
    c = pd.Categorical(["u", "v"], categories=["u", "v"])
    df = pd.DataFrame({"a": a, ("t" if kind == "renamed" else "s"): s, "c": c})
    if kind == "extra":
        df["zz"] = [1, 2]
    if kind == "order":
        df = df[["s", "a", "c"]]
    return df


def run_incompatible(p):
    """verification must reject a file whose schema differs: at every position, through every entry point"""
    import os
    import shutil
    import fastparquet
    from fastparquet import writer
    from mc.scratch import scratch
    entry = p["entry"]
    d = scratch()
    files = make_files(d, "flat")
    rootdir = os.path.join(d, "root")
    sigs = {}
    detail = [""]
    n = 0

    def accepted(kind, pos, what):
        s = {"shape": "incompatible", "entry": entry, "symptom": "accepted", "pos": pos, "odd": kind}
        sigs.setdefault(repr(sorted(s.items())), s)
        detail[0] = detail[0] or "%s: a file with a different schema (%s) at position %d was accepted under verification" % (what, kind, pos)

    for kind in ODDS:
        odd = os.path.join(d, "odd_%s.parquet" % kind)
        fastparquet.write(odd, odd_frame(kind), write_index=False)
        if entry in ("dir", "glob"):
            # a directory of its own with two of the files and the odd one sorting first / between / last
            for pos, name in enumerate(["e.parquet", "f05.parquet", "g.parquet"]):
                dd = os.path.join(d, "inc_%s_%d" % (kind, pos))
                os.makedirs(dd)
                shutil.copyfile(files[0][0], os.path.join(dd, "f0.parquet"))
                shutil.copyfile(files[1][0], os.path.join(dd, "f1.parquet"))
                shutil.copyfile(odd, os.path.join(dd, name))
                n += 1
                try:
                    fastparquet.ParquetFile(dd if entry == "dir" else os.path.join(dd, "*.parquet"), verify=True)
                except Exception:
                    continue
                accepted(kind, pos, "%s %s" % (entry, sorted(os.listdir(dd))))
            continue
        oddp = os.path.join(rootdir, "odd_%s.parquet" % kind)
        shutil.copyfile(odd, oddp)
        cases = []
        for pos in range(3):
            for others in itertools.permutations([0, 1, 3], 2):
                paths = [files[i][0] for i in others]
                paths.insert(pos, oddp)
                cases.append((pos, paths))
        for i in (0, 1, 3):
            cases.append((1, [files[i][0], oddp]))
            cases.append((0, [oddp, files[i][0]]))
        for pos, paths in cases:
            n += 1
            try:
                if entry == "paths":
                    fastparquet.ParquetFile(paths, verify=True)
                elif entry == "objects":
                    fastparquet.ParquetFile([fastparquet.ParquetFile(x) for x in paths], verify=True)
                else:
                    for f in ("_metadata", "_common_metadata"):
                        try:
                            os.unlink(os.path.join(rootdir, f))
                        except OSError:
                            pass
                    writer.merge(paths)       # verification is merge()'s default
            except Exception:
                continue
            accepted(kind, pos, "%s %r" % (entry, [os.path.basename(x) for x in paths]))
    ok = not sigs
    return {"ok": ok, "outcome": "rejected" if ok else "accepted", "nontrivial": n > 0,
            "counts": {"datasets": n}, "sig": list(sigs.values()) or None, "detail": detail[0]}


def run_catwidth(p):
    """files whose dictionaries each fit a narrow code type while their union does not"""
    import os
    import pandas as pd
    import fastparquet
    from mc.scratch import scratch
    from mc import oracles as O
    d = scratch()
    sigs = {}
    detail = [""]
    datasets = 0
    for sizes in p["sizes"]:
        files = []
        for i, n in enumerate(sizes):
            labs = ["L%d_%05d" % (i, j) for j in range(n)]
            vals = list(labs)
            if n > 2:
                vals[1] = None
            df = pd.DataFrame({"a": pd.Series(range(n), dtype="int64"), "c": pd.Categorical(vals, categories=labs)})
            path = os.path.join(d, "w%s_%d.parquet" % ("_".join(map(str, sizes)), i))
            fastparquet.write(path, df, write_index=False)
            files.append((path, vals))
        for lst in itertools.permutations(range(len(sizes))):
            what = "label sets of %r, list %r" % (sizes, list(lst))
            base = {"shape": "catwidth", "union": sum(sizes), "nfiles": len(lst)}
            try:
                pf = fastparquet.ParquetFile([files[i][0] for i in lst])
                df = pf.to_pandas()
                got = O.series_to_list(df["c"])
            except Exception as e:
                s = dict(base, symptom="read_raised", exc=type(e).__name__)
                sigs.setdefault(repr(sorted(s.items())), s)
                detail[0] = detail[0] or "%s: %s: %s" % (what, type(e).__name__, str(e)[:150])
                continue
            datasets += 1
            exp = [v for i in lst for v in files[i][1]]
            if got != exp:
                k = next((j for j in range(min(len(got), len(exp))) if got[j] != exp[j]), -1)
                s = dict(base, symptom="content")
                sigs.setdefault(repr(sorted(s.items())), s)
                detail[0] = detail[0] or "%s: %d labels read, %d written; first difference at row %d: %r instead of %r" % (
                    what, len(got), len(exp), k, got[k] if 0 <= k < len(got) else None, exp[k] if 0 <= k < len(exp) else None)
            elif not isinstance(df["c"].dtype, pd.CategoricalDtype):
                s = dict(base, symptom="dtype")
                sigs.setdefault(repr(sorted(s.items())), s)
                detail[0] = detail[0] or "%s: column c comes back as %s" % (what, df["c"].dtype)
    ok = not sigs
    return {"ok": ok, "outcome": "concatenation" if ok else "differs", "nontrivial": datasets > 0,
            "counts": {"datasets": datasets}, "sig": list(sigs.values()) or None, "detail": detail[0]}


def run_index(p):
    """files written with the default RangeIndex (kept in the pandas metadata only) or with a stored, named index"""
    import os
    import numpy as np
    import pandas as pd
    import fastparquet
    from fastparquet import writer
    from mc.scratch import scratch
    from mc import oracles as O
    kind, entry = p["kind"], p["entry"]
    d = scratch()
    files = []
    for i, n in enumerate([3, 1, 0, 4]):
        a = [10 * i + j for j in range(n)]
        ix = [100 * i + j for j in range(n)]
        if kind == "range":
            df = pd.DataFrame({"a": np.array(a, dtype="int64")})
        else:
            df = pd.DataFrame({"a": np.array(a, dtype="int64")}, index=pd.Index(ix, dtype="int64", name="ix"))
        path = os.path.join(d, "root", "i%d.parquet" % i)
        os.makedirs(os.path.dirname(path), exist_ok=True)
        fastparquet.write(path, df)
        files.append((path, a, ix))
    sigs = {}
    detail = [""]
    datasets = nontriv = 0

    def bad(symptom, msg, **extra):
        s = {"shape": "index", "kind": kind, "entry": entry, "symptom": symptom}
        s.update(extra)
        sigs.setdefault(repr(sorted(s.items())), s)
        detail[0] = detail[0] or msg

    for n in range(1, p["maxlen"] + 1):
        for lst in itertools.permutations(range(4), n):
            what = "index=%s %s files=%r" % (kind, entry, list(lst))
            paths = [files[i][0] for i in lst]
            try:
                if entry == "paths":
                    pf = fastparquet.ParquetFile(paths)
                else:
                    for f in ("_metadata", "_common_metadata"):
                        try:
                            os.unlink(os.path.join(d, "root", f))
                        except OSError:
                            pass
                    pf = fastparquet.ParquetFile(writer.merge(paths).fn)
                df = pf.to_pandas()
                got = O.series_to_list(df["a"])
                gix = [int(x) for x in df.index]
            except Exception as e:
                bad("open_raised", "%s: %s: %s" % (what, type(e).__name__, str(e)[:150]), exc=type(e).__name__,
                    nfiles=len(lst))
                continue
            datasets += 1
            exp = [v for i in lst for v in files[i][1]]
            nontriv += bool(exp)
            if got != exp:
                bad("content", "%s: a=%r, expected %r" % (what, got, exp))
                continue
            expix = list(range(len(exp))) if kind == "range" else [v for i in lst for v in files[i][2]]
            if gix != expix or (kind == "stored" and exp and df.index.name != "ix"):
                bad("index", "%s: index %r (name %r), expected %r" % (what, gix[:10], df.index.name, expix[:10]))
    ok = not sigs
    return {"ok": ok, "outcome": "concatenation" if ok else "differs", "nontrivial": nontriv > 0,
            "counts": {"datasets": datasets, "with_rows": nontriv}, "sig": list(sigs.values()) or None, "detail": detail[0]}


def run_footer(p):
    """the fast path reads the last int(1.4 * footer of the first file) bytes of every other file and fetches again
    when a footer does not fit: a later file whose footer + 8 lies -2..+10 bytes around that size"""
    import os
    import pandas as pd
    import fastparquet
    from mc.scratch import scratch
    from mc import oracles as O
    d = scratch()
    files = make_files(d, "flat")
    A, C = files[0], files[1]
    size = int(1.4 * fastparquet.ParquetFile(A[0])._head_size)
    rowsB = [(21, "p", "u"), (22, None, "v")]
    dfB = pd.DataFrame({"a": pd.Series([r[0] for r in rowsB], dtype="int64"),
                        "s": pd.Series([r[1] for r in rowsB], dtype=object),
                        "c": pd.Categorical([r[2] for r in rowsB], categories=["u", "v"])})
    sigs = {}
    detail = [""]
    datasets = hit = 0
    for delta in range(-2, 11):
        path = os.path.join(d, "root", "b%+d.parquet" % delta)
        npad, got = 0, None
        for _ in range(8):
            fastparquet.write(path, dfB, write_index=False, custom_metadata={"pad": "x" * npad})
            got = fastparquet.ParquetFile(path)._head_size + 8 - size
            if got == delta:
                break
            npad = max(0, npad + (delta - got))
        if got != delta:
            continue       # a length prefix changed width just here: this distance cannot be produced
        hit += 1
        for lst in ([A, (path, rowsB), C], [A, C, (path, rowsB)], [C, A, (path, rowsB)]):
            what = "footer + 8 = fetch size %+d, list %r" % (delta, [os.path.basename(x[0]) for x in lst])
            try:
                pf = fastparquet.ParquetFile([x[0] for x in lst])
                rows, _, _ = read_rows(pf, [])
            except Exception as e:
                s = {"shape": "footer", "symptom": "open_raised", "exc": type(e).__name__, "delta": delta}
                sigs.setdefault(repr(sorted(s.items())), s)
                detail[0] = detail[0] or "%s: %s: %s" % (what, type(e).__name__, str(e)[:150])
                continue
            datasets += 1
            exp = [r for x in lst for r in x[1]]
            if rows != exp or pf.count() != len(exp):
                s = {"shape": "footer", "symptom": "content", "delta": delta}
                sigs.setdefault(repr(sorted(s.items())), s)
                detail[0] = detail[0] or "%s: rows %r, expected %r" % (what, rows, exp)
    ok = not sigs
    return {"ok": ok, "outcome": "concatenation" if ok else "differs", "nontrivial": hit >= 10,
            "counts": {"datasets": datasets, "footer_distances": hit}, "sig": list(sigs.values()) or None, "detail": detail[0]}


def run_memfs(p):
    """the same files on fsspec's memory file-system, named '/x', 'x' and 'memory://x'"""
    import os
    import fsspec
    import fastparquet
    from mc.scratch import scratch
    d = scratch()
    files = make_files(d, "hive")
    m = fsspec.filesystem("memory")
    top = "/c14-%d" % os.getpid()
    try:
        m.rm(top, recursive=True)
    except Exception:
        pass
    sigs = {}
    detail = [""]
    datasets = nontriv = 0
    try:
        mpaths = []
        for path, rows, keys in files:
            mp = top + "/root/" + os.path.relpath(path, os.path.join(d, "root"))
            with open(path, "rb") as f:
                m.pipe_file(mp, f.read())
            mpaths.append(mp)
        spell = {"slash": lambda x: x, "noslash": lambda x: x.lstrip("/"), "url": lambda x: "memory://" + x.lstrip("/")}
        lists = []
        for n in range(1, p["maxlen"] + 1):
            lists += list(itertools.permutations(range(5), n))
        for spname, spf in sorted(spell.items()):
            for how in ("fs", "open_with"):
                for root_mode in ("inferred", "given"):
                    if how == "open_with" and root_mode == "given":
                        continue
                    for lst in lists:
                        what = "memory fs, names %s, %s=, root %s, files %r" % (spname, how, root_mode, list(lst))
                        base = {"shape": "memfs", "spell": spname, "how": how, "root": root_mode,
                                "path": "fast" if len(lst) >= 3 else "legacy"}
                        kw = {"fs": m} if how == "fs" else {"open_with": m.open}
                        if root_mode == "given":
                            kw["root"] = spf(top + "/root")
                        try:
                            pf = fastparquet.ParquetFile([spf(mpaths[i]) for i in lst], **kw)
                            rows, keys, df = read_rows(pf, ["k"])
                        except Exception as e:
                            s = dict(base, symptom="open_raised", exc=type(e).__name__)
                            sigs.setdefault(repr(sorted(s.items())), s)
                            detail[0] = detail[0] or "%s: %s: %s" % (what, type(e).__name__, str(e)[:150])
                            continue
                        datasets += 1
                        exp = [r for i in lst for r in files[i][1]]
                        nontriv += bool(exp)
                        if rows != exp or pf.count() != len(exp):
                            s = dict(base, symptom="content")
                            sigs.setdefault(repr(sorted(s.items())), s)
                            detail[0] = detail[0] or "%s: rows %r, expected %r" % (what, rows[:8], exp[:8])
                            continue
                        distinct_dirs = len({files[i][2][0] for i in lst if files[i][1]})
                        if exp and (root_mode == "given" or distinct_dirs >= 2):
                            expk = [files[i][2][0] for i in lst for r in files[i][1]]
                            if keys[0] != expk:
                                s = dict(base, symptom="partition_column")
                                sigs.setdefault(repr(sorted(s.items())), s)
                                detail[0] = detail[0] or "%s: k=%r, directories say %r" % (what, keys[0], expk)
    finally:
        try:
            m.rm(top, recursive=True)
        except Exception:
            pass
    ok = not sigs
    return {"ok": ok, "outcome": "concatenation" if ok else "differs", "nontrivial": nontriv > 0,
            "counts": {"datasets": datasets, "with_rows": nontriv}, "sig": list(sigs.values()) or None, "detail": detail[0]}


LEVEL_TEXT = ("Bounded-exhaustive lattice: every ordered list of up to 3 (quick) / 4 (thorough) of five single files with "
              "different row counts, row-group counts, codecs and categorical label sets (one with a NULL), in flat / hive / drill "
              "directory shapes of one and two levels, opened through six entry points with and without verification, with the root "
              "inferred or given (also with a trailing slash), the paths spelled absolute, relative, './'-prefixed or bare, on the "
              "local and the memory file-system (covering both the legacy and the footer-gathering code path for every shape); "
              "directories with stray files and with every subset of the files; plain, partitioned and categorical sub-datasets; "
              "seven kinds of schema-incompatible files at every position through five entry points; label unions beyond the code "
              "width of each file; default and stored index; footer sizes around the tail-fetch size. The result is compared "
              "with the concatenation of the rows written (values, counts incl. the footer's num_rows, dtypes, index, partition "
              "columns), and the summary files merge() writes are decoded by the spec-level reader.")
LEVEL_NOTE = ("Trusted: pandas value extraction. Lists do not repeat a path; partition columns judged under the documented "
              "root-inference rule; files differing only in pandas-level typing are not expected to be rejected.")
TECHNIQUE = "bounded exhaustive enumeration of ordered file lists x directory shapes x entry points x path spellings vs concatenation of the rows written"
