"""Specification-level Parquet file reader / strict validator / writer.

Shares no code or tables with fastparquet.  cramjam (and zlib) are the only
third-party pieces, used for the compression codecs.
"""
import struct
import zlib

from . import codecs as C
from .thrift import codec as tcodec, ThriftError, Codec

MAGIC = b"PAR1"

T_BOOLEAN, T_INT32, T_INT64, T_INT96, T_FLOAT, T_DOUBLE, T_BYTE_ARRAY, T_FLBA = range(8)
REQUIRED, OPTIONAL, REPEATED = 0, 1, 2
E_PLAIN, E_PLAIN_DICT, E_RLE, E_BIT_PACKED, E_DELTA, E_DLBA, E_DBA, E_RLE_DICT, E_BSS = 0, 2, 3, 4, 5, 6, 7, 8, 9
P_DATA, P_INDEX, P_DICT, P_DATA_V2 = 0, 1, 2, 3
CODECS = {0: "UNCOMPRESSED", 1: "SNAPPY", 2: "GZIP", 3: "LZO", 4: "BROTLI", 5: "LZ4", 6: "ZSTD", 7: "LZ4_RAW"}
CODEC_ID = {v: k for k, v in CODECS.items()}
CT = {"UTF8": 0, "MAP": 1, "MAP_KEY_VALUE": 2, "LIST": 3, "ENUM": 4, "DECIMAL": 5, "DATE": 6,
      "TIME_MILLIS": 7, "TIME_MICROS": 8, "TIMESTAMP_MILLIS": 9, "TIMESTAMP_MICROS": 10,
      "UINT_8": 11, "UINT_16": 12, "UINT_32": 13, "UINT_64": 14, "INT_8": 15, "INT_16": 16,
      "INT_32": 17, "INT_64": 18, "JSON": 19, "BSON": 20, "INTERVAL": 21}
CT_NAME = {v: k for k, v in CT.items()}


class FormatError(Exception):
    pass


# ------------------------------------------------------------------ compression
def compress(data, codec):
    import cramjam
    name = CODECS.get(codec, codec)
    if name == "UNCOMPRESSED":
        return bytes(data)
    if name == "SNAPPY":
        return bytes(cramjam.snappy.compress_raw(data))
    if name == "GZIP":
        co = zlib.compressobj(6, zlib.DEFLATED, 31)
        return co.compress(bytes(data)) + co.flush()
    if name == "ZSTD":
        return bytes(cramjam.zstd.compress(data))
    if name == "BROTLI":
        return bytes(cramjam.brotli.compress(data))
    if name in ("LZ4_RAW", "LZ4"):
        return bytes(cramjam.lz4.compress_block(bytes(data), store_size=False))
    raise FormatError("codec %s not available" % name)


def decompress(data, codec, size, deviations=None):
    import cramjam
    name = CODECS.get(codec, codec)
    data = bytes(data)
    if name == "UNCOMPRESSED":
        return data
    if name == "SNAPPY":
        return bytes(cramjam.snappy.decompress_raw(data))
    if name == "GZIP":
        return zlib.decompress(data, 47)
    if name == "ZSTD":
        return bytes(cramjam.zstd.decompress(data))
    if name == "BROTLI":
        return bytes(cramjam.brotli.decompress(data))
    if name == "LZ4_RAW":
        return bytes(cramjam.lz4.decompress_block(data, size))
    if name == "LZ4":
        # the deprecated LZ4 codec is ambiguous in practice (Hadoop framing vs raw
        # block); mainstream readers try both.  Counted, not judged.
        if deviations is not None:
            deviations["lz4_raw_block_under_LZ4"] = deviations.get("lz4_raw_block_under_LZ4", 0) + 1
        return bytes(cramjam.lz4.decompress_block(data, size))
    raise FormatError("codec %s not available" % name)


# ------------------------------------------------------------------ schema
class Node:
    def __init__(self, se):
        self.se = se
        self.name = se["name"] if isinstance(se["name"], str) else se["name"].decode("utf8", "replace")
        self.children = []
        self.rep = se.get("repetition_type")
        self.type = se.get("type")
        self.ct = se.get("converted_type")
        self.lt = se.get("logicalType")
        self.type_length = se.get("type_length")

    @property
    def is_leaf(self):
        return not self.children and self.type is not None


def build_schema(elements):
    pos = [0]

    def rec():
        if pos[0] >= len(elements):
            raise FormatError("schema list too short for num_children")
        n = Node(elements[pos[0]])
        pos[0] += 1
        for _ in range(n.se.get("num_children") or 0):
            n.children.append(rec())
        return n
    root = rec()
    if pos[0] != len(elements):
        raise FormatError("schema has %d unreachable elements" % (len(elements) - pos[0]))
    return root


def leaves(root):
    """-> list of (path tuple, [nodes along path excluding root])"""
    out = []

    def rec(n, path, nodes):
        if not n.children:
            out.append((tuple(path), list(nodes)))
            return
        for c in n.children:
            rec(c, path + [c.name], nodes + [c])
    for c in root.children:
        rec(c, [c.name], [c])
    return out


def levels_of(nodes):
    md = sum(1 for n in nodes if n.rep != REQUIRED)
    mr = sum(1 for n in nodes if n.rep == REPEATED)
    return md, mr


# ------------------------------------------------------------------ reading
class Chunk:
    pass


class Parsed:
    def __init__(self):
        self.errors = []
        self.deviations = {}
        self.fmd = None
        self.root = None
        self.leaves = []
        self.row_groups = []     # list of {path: Chunk}
        self.footer_start = None
        self.footer_len = None

    def err(self, msg):
        self.errors.append(msg)


def read_footer(data, p=None, metadata_only=False):
    p = p or Parsed()
    data = bytes(data)
    if len(data) < 12:
        raise FormatError("file shorter than 12 bytes")
    if data[:4] != MAGIC:
        raise FormatError("bad leading magic %r" % data[:4])
    if data[-4:] != MAGIC:
        raise FormatError("bad trailing magic %r" % data[-4:])
    flen = struct.unpack("<I", data[-8:-4])[0]
    start = len(data) - 8 - flen
    if start < 4:
        raise FormatError("footer length %d larger than file" % flen)
    p.footer_start, p.footer_len = start, flen
    tc = tcodec()
    try:
        fmd, end = tc.decode("FileMetaData", data, start, strict=True, tolerate={"empty_list_type0"})
    except ThriftError as e:
        raise FormatError("footer does not follow the IDL: %s" % e)
    for k, v in tc.deviations.items():
        p.deviations[k] = p.deviations.get(k, 0) + v
    if end != len(data) - 8:
        raise FormatError("footer struct ends at %d, footer length says %d" % (end, len(data) - 8))
    p.fmd = fmd
    p.root = build_schema(fmd["schema"])
    p.leaves = leaves(p.root)
    return p


def read_file(data, check_stats=True, external=None):
    """Parse and validate a whole file.  Structural problems that make decoding
    impossible raise FormatError; every other broken obligation is appended to
    Parsed.errors.  external: callable(file_path) -> bytes for chunks that live
    in other files (only used for _metadata validation)."""
    data = bytes(data)
    p = read_footer(data)
    fmd = p.fmd
    total_rows = 0
    for gi, rg in enumerate(fmd["row_groups"]):
        out = {}
        if len(rg["columns"]) != len(p.leaves):
            p.err("row group %d has %d column chunks, schema has %d leaves" % (gi, len(rg["columns"]), len(p.leaves)))
        tbs = 0
        for ci, cc in enumerate(rg["columns"]):
            md = cc.get("meta_data")
            if md is None:
                p.err("rg %d col %d: no meta_data" % (gi, ci))
                continue
            if cc.get("file_path"):
                continue   # chunk lives elsewhere
            path = tuple(x if isinstance(x, str) else x.decode("utf8", "replace") for x in md["path_in_schema"])
            match = [lv for lv in p.leaves if lv[0] == path]
            if not match:
                p.err("rg %d col %d: path %r not a leaf of the schema" % (gi, ci, path))
                continue
            if ci < len(p.leaves) and p.leaves[ci][0] != path:
                p.err("rg %d col %d: path %r out of schema order (expected %r)" % (gi, ci, path, p.leaves[ci][0]))
            nodes = match[0][1]
            ch = read_chunk(data, md, nodes, p, "rg %d col %s" % (gi, ".".join(path)))
            ch.path = path
            out[path] = ch
            tbs += md["total_uncompressed_size"]
            if ch.num_rows is not None and ch.num_rows != rg["num_rows"]:
                p.err("rg %d col %s: %d rows in pages, row group says %d" % (gi, ".".join(path), ch.num_rows, rg["num_rows"]))
        if out and rg["total_byte_size"] != tbs:
            p.err("rg %d: total_byte_size %d != sum of chunk total_uncompressed_size %d" % (gi, rg["total_byte_size"], tbs))
        total_rows += rg["num_rows"]
        p.row_groups.append(out)
    if fmd["num_rows"] != total_rows:
        p.err("FileMetaData.num_rows %d != sum of row groups %d" % (fmd["num_rows"], total_rows))
    return p


def read_chunk(data, md, nodes, p, where):
    ch = Chunk()
    leaf = nodes[-1]
    max_def, max_rep = levels_of(nodes)
    ch.max_def, ch.max_rep = max_def, max_rep
    ch.leaf = leaf
    ch.md = md
    ch.defs, ch.reps, ch.values = [], [], []
    ch.pages = []
    ch.num_rows = None
    ptype = md["type"]
    if ptype != leaf.type:
        p.err("%s: chunk type %s != schema type %s" % (where, ptype, leaf.type))
    dpo = md["data_page_offset"]
    dico = md.get("dictionary_page_offset")
    start = dico if dico else dpo
    if dico and dico > dpo:
        p.err("%s: dictionary_page_offset %d after data_page_offset %d" % (where, dico, dpo))
        start = min(dico, dpo)
    end = start + md["total_compressed_size"]
    if start < 4 or end > len(data) - 8:
        raise FormatError("%s: chunk [%d,%d) outside file body" % (where, start, end))
    if p.footer_start is not None and end > p.footer_start:
        p.err("%s: chunk ends at %d inside the footer (starts %d)" % (where, end, p.footer_start))
    pos = start
    dictionary = None
    tc = tcodec()
    unc_total = 0
    enc_seen = set()
    enc_stats = {}
    nvals_total = 0
    rows = 0
    first_data_seen = False
    codec = md["codec"]
    while pos < end:
        try:
            ph, hend = tc.decode("PageHeader", data, pos, strict=True)
        except ThriftError as e:
            raise FormatError("%s: page header at %d does not follow the IDL: %s" % (where, pos, e))
        hlen = hend - pos
        csize, usize = ph["compressed_page_size"], ph["uncompressed_page_size"]
        if csize < 0 or hend + csize > end:
            raise FormatError("%s: page at %d (payload %d) runs past chunk end %d" % (where, pos, csize, end))
        body = data[hend:hend + csize]
        unc_total += hlen + usize
        pt = ph["type"]
        info = {"offset": pos, "type": pt, "header_len": hlen, "csize": csize, "usize": usize}
        if pt == P_DICT:
            if pos != start or first_data_seen:
                p.err("%s: dictionary page at %d is not the first page" % (where, pos))
            if not dico or dico != pos:
                p.err("%s: dictionary page at %d but dictionary_page_offset=%r" % (where, pos, dico))
            dh = ph.get("dictionary_page_header")
            if dh is None:
                raise FormatError("%s: DICTIONARY_PAGE without dictionary_page_header" % where)
            raw = _decomp(body, codec, usize, p, where)
            if dh["encoding"] not in (E_PLAIN, E_PLAIN_DICT):
                p.err("%s: dictionary page encoding %d" % (where, dh["encoding"]))
            try:
                dictionary, dend = C.plain_decode(raw, 0, len(raw), dh["num_values"], ptype, leaf.type_length)
            except C.CodecError as e:
                raise FormatError("%s: dictionary page: %s" % (where, e))
            if dend != len(raw):
                p.deviations["dict_page_trailing_bytes"] = p.deviations.get("dict_page_trailing_bytes", 0) + 1
            enc_seen.add(dh["encoding"])
            k = (P_DICT, dh["encoding"])
            enc_stats[k] = enc_stats.get(k, 0) + 1
            info["num_values"] = dh["num_values"]
        elif pt in (P_DATA, P_DATA_V2):
            if not first_data_seen:
                first_data_seen = True
                if pos != dpo:
                    p.err("%s: first data page at %d but data_page_offset=%d" % (where, pos, dpo))
            try:
                if pt == P_DATA:
                    n, nrows = _read_v1(ph, body, codec, usize, ch, ptype, leaf, dictionary, p, where, info)
                else:
                    n, nrows = _read_v2(ph, body, codec, usize, ch, ptype, leaf, dictionary, p, where, info)
            except (C.CodecError, ThriftError) as e:
                raise FormatError("%s: page at %d: %s" % (where, pos, e))
            nvals_total += n
            rows += nrows
            enc_seen.add(info["encoding"])
            k = (pt, info["encoding"])
            enc_stats[k] = enc_stats.get(k, 0) + 1
        elif pt == P_INDEX:
            pass
        else:
            p.err("%s: unknown page type %d" % (where, pt))
        ch.pages.append(info)
        pos = hend + csize
    if pos != end:
        p.err("%s: pages end at %d, chunk says %d" % (where, pos, end))
    if not first_data_seen and md["num_values"]:
        p.err("%s: no data page" % where)
    if nvals_total != md["num_values"]:
        p.err("%s: pages hold %d values, num_values=%d" % (where, nvals_total, md["num_values"]))
    if unc_total != md["total_uncompressed_size"]:
        p.err("%s: total_uncompressed_size=%d but headers+uncompressed payloads sum to %d" % (
            where, md["total_uncompressed_size"], unc_total))
    ch.num_rows = rows
    declared = set(md["encodings"])
    missing = enc_seen - declared
    # PLAIN_DICTIONARY(2) and RLE_DICTIONARY(8) name the same data-page layout
    if missing:
        p.err("%s: encodings %s used but not listed in %s" % (where, sorted(missing), sorted(declared)))
    es = md.get("encoding_stats")
    if es is not None:
        got = {}
        for s in es:
            k = (s["page_type"], s["encoding"])
            got[k] = got.get(k, 0) + s["count"]
        # v2 data pages may be reported under DATA_PAGE by writers that do not distinguish: strict here
        if got != enc_stats:
            p.err("%s: encoding_stats %s != pages present %s" % (where, sorted(got.items()), sorted(enc_stats.items())))
    st = md.get("statistics")
    if st is not None and st.get("null_count") is not None:
        nulls = sum(1 for d in ch.defs if d < max_def) if max_def else 0
        if st["null_count"] != nulls:
            p.err("%s: statistics.null_count=%d but %d level entries are below max" % (where, st["null_count"], nulls))
    ch.dictionary = dictionary
    return ch


def _decomp(body, codec, usize, p, where):
    if codec == 0:
        if len(body) != usize:
            p.err("%s: UNCOMPRESSED page with compressed size %d != uncompressed size %d" % (where, len(body), usize))
        return bytes(body)
    try:
        raw = decompress(body, codec, usize, p.deviations)
    except FormatError:
        raise
    except Exception as e:
        raise FormatError("%s: codec %s cannot decompress page: %s" % (where, CODECS.get(codec, codec), e))
    if len(raw) != usize:
        p.err("%s: page decompresses to %d bytes, uncompressed_page_size=%d" % (where, len(raw), usize))
    return raw


def _values(enc, raw, pos, end, nvals, ptype, leaf, dictionary, p, where):
    if enc == E_PLAIN:
        vals, vend = C.plain_decode(raw, pos, end, nvals, ptype, leaf.type_length)
    elif enc in (E_PLAIN_DICT, E_RLE_DICT):
        if dictionary is None:
            raise FormatError("%s: dictionary-encoded page without dictionary page" % where)
        if nvals == 0 and pos >= end:
            return [], pos
        if pos >= end:
            raise FormatError("%s: dictionary indices missing bit width byte" % where)
        w = raw[pos]
        if w > 32:
            raise FormatError("%s: dictionary index bit width %d" % (where, w))
        idx, vend = C.hybrid_decode(raw, pos + 1, end, nvals, w, p.deviations)
        for i in idx:
            if i >= len(dictionary):
                raise FormatError("%s: dictionary index %d >= dictionary size %d" % (where, i, len(dictionary)))
        vals = [dictionary[i] for i in idx]
    elif enc == E_DELTA:
        if ptype not in (T_INT32, T_INT64):
            raise FormatError("%s: DELTA_BINARY_PACKED on type %d" % (where, ptype))
        vals, vend = C.delta_decode(raw, pos, end, 32 if ptype == T_INT32 else 64)
        if len(vals) != nvals:
            raise FormatError("%s: delta block holds %d values, page needs %d" % (where, len(vals), nvals))
    elif enc == E_RLE:
        if ptype != T_BOOLEAN:
            raise FormatError("%s: RLE value encoding on type %d" % (where, ptype))
        n = struct.unpack_from("<I", raw, pos)[0]
        v, vend = C.hybrid_decode(raw, pos + 4, pos + 4 + n, nvals, 1, p.deviations)
        vals = [bool(x) for x in v]
        vend = pos + 4 + n
    else:
        raise FormatError("%s: value encoding %d not supported by the model" % (where, enc))
    if vend < end:
        p.deviations["page_trailing_bytes"] = p.deviations.get("page_trailing_bytes", 0) + 1
        p.deviations["page_trailing_bytes_max"] = max(p.deviations.get("page_trailing_bytes_max", 0), end - vend)
    return vals, vend


def _count_rows(reps, n, max_rep):
    if not max_rep:
        return n
    return sum(1 for r in reps if r == 0)


def _read_v1(ph, body, codec, usize, ch, ptype, leaf, dictionary, p, where, info):
    dh = ph.get("data_page_header")
    if dh is None:
        raise FormatError("%s: DATA_PAGE without data_page_header" % where)
    raw = _decomp(body, codec, usize, p, where)
    n = dh["num_values"]
    pos = 0
    reps = []
    if ch.max_rep:
        if dh["repetition_level_encoding"] != E_RLE:
            raise FormatError("%s: repetition level encoding %d" % (where, dh["repetition_level_encoding"]))
        ln = struct.unpack_from("<I", raw, pos)[0]
        reps, e = C.hybrid_decode(raw, pos + 4, pos + 4 + ln, n, C.width_for(ch.max_rep), p.deviations)
        pos += 4 + ln
    defs = []
    if ch.max_def:
        if dh["definition_level_encoding"] != E_RLE:
            raise FormatError("%s: definition level encoding %d" % (where, dh["definition_level_encoding"]))
        if pos + 4 > len(raw):
            raise FormatError("%s: definition level length prefix missing" % where)
        ln = struct.unpack_from("<I", raw, pos)[0]
        if pos + 4 + ln > len(raw):
            raise FormatError("%s: definition levels (%d bytes) run past page end" % (where, ln))
        defs, e = C.hybrid_decode(raw, pos + 4, pos + 4 + ln, n, C.width_for(ch.max_def), p.deviations)
        if e != pos + 4 + ln:
            p.deviations["level_trailing_bytes"] = p.deviations.get("level_trailing_bytes", 0) + 1
        pos += 4 + ln
        for d in defs:
            if d > ch.max_def:
                raise FormatError("%s: definition level %d > max %d" % (where, d, ch.max_def))
    nvals = sum(1 for d in defs if d == ch.max_def) if ch.max_def else n
    info["encoding"] = dh["encoding"]
    info["num_values"] = n
    vals, _ = _values(dh["encoding"], raw, pos, len(raw), nvals, ptype, leaf, dictionary, p, where)
    ch.defs.extend(defs)
    ch.reps.extend(reps)
    ch.values.extend(vals)
    return n, _count_rows(reps, n, ch.max_rep)


def _read_v2(ph, body, codec, usize, ch, ptype, leaf, dictionary, p, where, info):
    dh = ph.get("data_page_header_v2")
    if dh is None:
        raise FormatError("%s: DATA_PAGE_V2 without data_page_header_v2" % where)
    n = dh["num_values"]
    rl, dl = dh["repetition_levels_byte_length"], dh["definition_levels_byte_length"]
    if rl < 0 or dl < 0 or rl + dl > len(body):
        raise FormatError("%s: level byte lengths %d+%d exceed page %d" % (where, rl, dl, len(body)))
    reps, defs = [], []
    if ch.max_rep:
        reps, e = C.hybrid_decode(body, 0, rl, n, C.width_for(ch.max_rep), p.deviations)
    elif rl:
        p.err("%s: repetition_levels_byte_length=%d on a column without repetition" % (where, rl))
    if ch.max_def:
        if dl == 0 and n:
            # levels omitted: only legal when there are no nulls?  The spec requires levels for
            # optional columns; count as error.
            p.err("%s: optional column v2 page without definition levels" % where)
            defs = [ch.max_def] * n
        else:
            defs, e = C.hybrid_decode(body, rl, rl + dl, n, C.width_for(ch.max_def), p.deviations)
            if e != rl + dl:
                p.deviations["level_trailing_bytes"] = p.deviations.get("level_trailing_bytes", 0) + 1
    elif dl:
        p.err("%s: definition_levels_byte_length=%d on a required column" % (where, dl))
    nulls = sum(1 for d in defs if d < ch.max_def) if ch.max_def else 0
    if dh["num_nulls"] != nulls:
        p.err("%s: v2 num_nulls=%d but %d level entries below max" % (where, dh["num_nulls"], nulls))
    nrows = _count_rows(reps, n, ch.max_rep)
    if dh["num_rows"] != nrows:
        p.err("%s: v2 num_rows=%d but page starts %d rows" % (where, dh["num_rows"], nrows))
    if reps and reps[0] != 0:
        p.err("%s: v2 page does not start at a row boundary" % where)
    comp = dh.get("is_compressed")
    if comp is None:
        comp = True
    payload = body[rl + dl:]
    want = usize - rl - dl
    if comp and codec != 0:
        try:
            raw = decompress(payload, codec, want, p.deviations)
        except Exception as e:
            raise FormatError("%s: codec %s cannot decompress v2 page: %s" % (where, CODECS.get(codec, codec), e))
    else:
        raw = bytes(payload)
    if len(raw) != want:
        p.err("%s: v2 values are %d bytes, uncompressed_page_size-levels=%d" % (where, len(raw), want))
    nvals = n - nulls
    info["encoding"] = dh["encoding"]
    info["num_values"] = n
    vals, _ = _values(dh["encoding"], raw, 0, len(raw), nvals, ptype, leaf, dictionary, p, where)
    ch.defs.extend(defs)
    ch.reps.extend(reps)
    ch.values.extend(vals)
    return n, nrows


# ------------------------------------------------------------------ assembly
def shape_of(root_child):
    """'flat' | ('list', ...) | ('map', ...) | 'other' for a top-level field"""
    n = root_child
    if not n.children:
        return "flat"
    if n.ct == CT["LIST"] or (n.lt and "LIST" in n.lt):
        if len(n.children) == 1 and n.children[0].rep == REPEATED and len(n.children[0].children) == 1 \
                and not n.children[0].children[0].children:
            return "list"
    if n.ct in (CT["MAP"], CT["MAP_KEY_VALUE"]) or (n.lt and "MAP" in n.lt):
        if len(n.children) == 1 and n.children[0].rep == REPEATED and len(n.children[0].children) == 2 \
                and all(not c.children for c in n.children[0].children):
            return "map"
    return "other"


def assemble_flat(ch):
    if not ch.max_def:
        return list(ch.values)
    it = iter(ch.values)
    return [next(it) if d == ch.max_def else None for d in ch.defs]


def assemble_list(ch, outer_optional):
    """3-level list: rows of None | list of (value | None)"""
    rows = []
    it = iter(ch.values)
    base = 1 if outer_optional else 0     # def level meaning "list present but empty"
    cur = None
    for r, d in zip(ch.reps, ch.defs):
        if r == 0:
            if d < base:
                rows.append(None)
                cur = None
                continue
            cur = []
            rows.append(cur)
            if d == base:
                continue
        if cur is None:
            raise FormatError("repeated entry continues a null row")
        if d == ch.max_def:
            cur.append(next(it))
        elif d > base:
            cur.append(None)
        else:
            raise FormatError("bad level pair rep=%d def=%d" % (r, d))
    return rows


def column_rows(p, name):
    """Logical rows (physical values) of top-level field `name` over all row groups."""
    node = [c for c in p.root.children if c.name == name][0]
    sh = shape_of(node)
    out = []
    for rg in p.row_groups:
        if sh == "flat":
            out.extend(assemble_flat(rg[(name,)]))
        elif sh == "list":
            path = (name, node.children[0].name, node.children[0].children[0].name)
            out.extend(assemble_list(rg[path], node.rep == OPTIONAL))
        elif sh == "map":
            kv = node.children[0]
            kn, vn = kv.children[0].name, kv.children[1].name
            keys = assemble_list(rg[(name, kv.name, kn)], node.rep == OPTIONAL)
            vals = assemble_list(rg[(name, kv.name, vn)], node.rep == OPTIONAL)
            for k, v in zip(keys, vals):
                if k is None:
                    out.append(None)
                else:
                    if len(k) != len(v):
                        raise FormatError("map keys/values of different length")
                    out.append(list(zip(k, v)))
        else:
            raise FormatError("shape of %s not supported by the model" % name)
    return out


def logical(value, leaf):
    """physical python value -> logical python value for comparison:
    UTF8/JSON/ENUM -> str; unsigned ints re-interpreted; others unchanged."""
    if value is None:
        return None
    ct = leaf.ct
    lt = leaf.lt or {}
    if leaf.type in (T_BYTE_ARRAY, T_FLBA):
        if ct in (CT["UTF8"], CT["JSON"], CT["ENUM"]) or "STRING" in lt or "JSON" in lt:
            return value.decode("utf8")
        return value
    if leaf.type == T_INT32:
        if ct == CT["UINT_8"]:
            return value & 0xFF
        if ct == CT["UINT_16"]:
            return value & 0xFFFF
        if ct == CT["UINT_32"]:
            return value & 0xFFFFFFFF
        return value
    if leaf.type == T_INT64:
        if ct == CT["UINT_64"]:
            return value & 0xFFFFFFFFFFFFFFFF
        return value
    return value
