"""Specification-level Parquet file writer driven by an explicit layout program.

write_file(spec) -> bytes

spec = {
  "created_by": str,
  "kv": [(key, value)] | None,
  "columns": [ col, ... ],           # top-level fields in schema order
  "row_groups": [ {name: chunk}, ...]
}
col = {
  "name": str, "ptype": int, "type_length": int|None,
  "rep": "required"|"optional",
  "ct": converted type int | None, "lt": logicalType dict | None,
  "scale": int|None, "precision": int|None,
  "nested": None | "list" | "map",
  # list: element description; map: key / value descriptions
  "elem": {"ptype","type_length","rep","ct","lt"}            (list)
  "key": {...}, "value": {...}                               (map)
  # optional, nested only: "group_name" (repeated middle group; default "list" / "key_value"),
  # "elem_name" (list leaf; default "element"), "kv_ct" (converted type of the map's middle group;
  # default MAP_KEY_VALUE, None = not annotated)
}
chunk (flat / list) = {
  "rows": [row values],   # flat: value|None ; list: None | [value|None,...] ; map: None | [(k, v|None),...]
  "pages": [ page, ... ] | None (one PLAIN v1 page),
  "codec": int,
  "dictionary": [values] | None        # dictionary page content (physical values)
  "stats": dict | None                 # raw Statistics struct to store
  "dict_enc": int                      # encoding id stored in the dictionary page header (default PLAIN)
  "encoding_stats": bool               # False: leave ColumnMetaData.encoding_stats out
  "dictionary_page_offset": int        # stored when the chunk has no dictionary page (e.g. 0)
  "codec_label": int                   # codec id stored in the metadata instead of "codec"
}
page = {
  "n": number of level entries (values incl. nulls) in this page,
  "enc": "PLAIN"|"PLAIN_DICTIONARY"|"RLE_DICTIONARY"|"DELTA_BINARY_PACKED"|"RLE"|<int: raw encoding id, values PLAIN-encoded>,
  "v": 1|2,
  "def_prog": run program for definition levels ("auto"|"rle"|"bp"|list),
  "rep_prog": likewise,
  "idx_prog": run program for dictionary indices,
  "idx_width": forced bit width of dictionary indices (>= needed) | None,
  "compressed": True|False|None        (v2 is_compressed)
  "delta": {"block":128,"mini":4,"force": None|int}    # force: minimum miniblock width
  "pad": int   trailing padding bytes after the values
  "def_enc": level encoding id written in a v1 header (default RLE)
}
"""
import struct

from . import codecs as C
from . import file as F
from .thrift import codec as tcodec

ENC = {"PLAIN": 0, "PLAIN_DICTIONARY": 2, "RLE": 3, "BIT_PACKED": 4, "DELTA_BINARY_PACKED": 5,
       "DELTA_LENGTH_BYTE_ARRAY": 6, "DELTA_BYTE_ARRAY": 7, "RLE_DICTIONARY": 8, "BYTE_STREAM_SPLIT": 9}
REP = {"required": 0, "optional": 1, "repeated": 2}


def _se(name, d, rep=None, num_children=None):
    se = {"name": name}
    if num_children is not None:
        se["num_children"] = num_children
    else:
        se["type"] = d["ptype"]
        if d.get("type_length") is not None:
            se["type_length"] = d["type_length"]
    se["repetition_type"] = REP[rep or d["rep"]]
    for k_src, k_dst in (("ct", "converted_type"), ("lt", "logicalType"), ("scale", "scale"),
                         ("precision", "precision")):
        if d.get(k_src) is not None and num_children is None:
            se[k_dst] = d[k_src]
    return se


def schema_elements(columns):
    out = [{"name": "schema", "num_children": len(columns)}]
    for c in columns:
        if not c.get("nested"):
            out.append(_se(c["name"], c))
        elif c["nested"] == "list":
            top = {"name": c["name"], "num_children": 1, "repetition_type": REP[c["rep"]],
                   "converted_type": F.CT["LIST"]}
            out.append(top)
            out.append({"name": c.get("group_name", "list"), "num_children": 1, "repetition_type": 2})
            out.append(_se(c.get("elem_name", "element"), c["elem"]))
        elif c["nested"] == "map":
            top = {"name": c["name"], "num_children": 1, "repetition_type": REP[c["rep"]],
                   "converted_type": F.CT["MAP"]}
            out.append(top)
            kv = {"name": c.get("group_name", "key_value"), "num_children": 2, "repetition_type": 2}
            if c.get("kv_ct", F.CT["MAP_KEY_VALUE"]) is not None:
                kv["converted_type"] = c.get("kv_ct", F.CT["MAP_KEY_VALUE"])
            out.append(kv)
            out.append(_se("key", c["key"]))
            out.append(_se("value", c["value"]))
    return out


def leaf_streams(col, rows):
    """-> list of (path, leafdesc, max_def, max_rep, reps, defs, values)"""
    if not col.get("nested"):
        md = 1 if col["rep"] == "optional" else 0
        defs = [0 if r is None else 1 for r in rows] if md else []
        if not md and any(r is None for r in rows):
            raise ValueError("null in required column")
        return [((col["name"],), col, md, 0, [], defs, [r for r in rows if r is not None])]
    base = 1 if col["rep"] == "optional" else 0

    def shred(leaf, pick):
        md = base + 1 + (1 if leaf["rep"] == "optional" else 0)
        reps, defs, vals = [], [], []
        for row in rows:
            if row is None:
                if not base:
                    raise ValueError("null row in required nested column")
                reps.append(0)
                defs.append(0)
            elif len(row) == 0:
                reps.append(0)
                defs.append(base)
            else:
                for i, item in enumerate(row):
                    v = pick(item)
                    reps.append(0 if i == 0 else 1)
                    if v is None:
                        if leaf["rep"] != "optional":
                            raise ValueError("null element in required leaf")
                        defs.append(md - 1)
                    else:
                        defs.append(md)
                        vals.append(v)
        return md, reps, defs, vals
    if col["nested"] == "list":
        md, reps, defs, vals = shred(col["elem"], lambda x: x)
        return [((col["name"], col.get("group_name", "list"), col.get("elem_name", "element")),
                 col["elem"], md, 1, reps, defs, vals)]
    kvn = col.get("group_name", "key_value")
    md, reps, defs, vals = shred(col["key"], lambda kv: kv[0])
    out = [((col["name"], kvn, "key"), col["key"], md, 1, reps, defs, vals)]
    md, reps, defs, vals = shred(col["value"], lambda kv: kv[1])
    out.append(((col["name"], kvn, "value"), col["value"], md, 1, reps, defs, vals))
    return out


def _encode_values(page, vals, leaf, dictionary):
    enc = page.get("enc", "PLAIN")
    if isinstance(enc, int):
        return C.plain_encode(vals, leaf["ptype"], leaf.get("type_length")), enc
    if enc == "PLAIN":
        return C.plain_encode(vals, leaf["ptype"], leaf.get("type_length")), 0
    if enc in ("PLAIN_DICTIONARY", "RLE_DICTIONARY"):
        lookup = {}
        for i, d in enumerate(dictionary):
            lookup.setdefault((type(d).__name__, repr(d)), i)
        idx = []
        for v in vals:
            k = (type(v).__name__, repr(v))
            idx.append(lookup[k] if k in lookup else _dict_index(dictionary, v))
        need = max([i.bit_length() for i in idx] + [0])
        if dictionary:
            need = max(need, 0)
        w = page.get("idx_width")
        if w is None:
            w = max(need, (len(dictionary) - 1).bit_length() if dictionary else 0)
        if w < need:
            raise ValueError("idx_width %d < needed %d" % (w, need))
        return bytes([w]) + C.hybrid_encode(idx, w, page.get("idx_prog", "auto")), ENC[enc]
    if enc == "DELTA_BINARY_PACKED":
        d = page.get("delta") or {}
        bits = 32 if leaf["ptype"] == F.T_INT32 else 64
        force = d.get("force")
        fw = (lambda b, m, w: max(w, force)) if force is not None else None
        return C.delta_encode(vals, bits, d.get("block", 128), d.get("mini", 4), fw), 5
    if enc == "RLE":
        body = C.hybrid_encode([1 if v else 0 for v in vals], 1, page.get("idx_prog", "auto"))
        return struct.pack("<I", len(body)) + body, 3
    raise ValueError("unknown page encoding %r" % (enc,))


def _dict_index(dictionary, v):
    for i, d in enumerate(dictionary):
        if type(d) is type(v) and d == v and repr(d) == repr(v):
            return i
    for i, d in enumerate(dictionary):
        if d == v:
            return i
    raise ValueError("value %r not in dictionary" % (v,))


def write_chunk(out, path, leaf, md, mr, reps, defs, vals, chunk, tc):
    """Append the pages of one column chunk to bytearray `out`; returns ColumnChunk dict."""
    codec = chunk.get("codec", 0)
    start = len(out)
    dictionary = chunk.get("dictionary")
    pages = chunk.get("pages")
    nentries = len(defs) if md else (len(reps) if mr else len(vals))
    if pages is None:
        pages = [{"n": nentries, "enc": "PLAIN", "v": 1}]
    unc = 0
    encodings = []
    enc_stats = {}
    dict_off = None
    if dictionary is not None:
        raw = C.plain_encode(dictionary, leaf["ptype"], leaf.get("type_length"))
        comp = F.compress(raw, codec)
        ph = {"type": F.P_DICT, "uncompressed_page_size": len(raw), "compressed_page_size": len(comp),
              "dictionary_page_header": {"num_values": len(dictionary),
                                         "encoding": chunk.get("dict_enc", 0)}}
        hb = tc.encode("PageHeader", ph)
        dict_off = len(out)
        out += hb
        out += comp
        unc += len(hb) + len(raw)
        encodings.append(chunk.get("dict_enc", 0))
        enc_stats[(F.P_DICT, chunk.get("dict_enc", 0))] = 1
    data_off = len(out)
    e0 = 0      # entry cursor
    v0 = 0      # value cursor
    for page in pages:
        n = page["n"]
        pdefs = defs[e0:e0 + n] if md else []
        preps = reps[e0:e0 + n] if mr else []
        nv = sum(1 for d in pdefs if d == md) if md else n
        pvals = vals[v0:v0 + nv]
        e0 += n
        v0 += nv
        vbytes, enc_id = _encode_values(page, pvals, leaf, dictionary)
        vbytes += b"\0" * page.get("pad", 0)
        ver = page.get("v", 1)
        if ver == 1:
            body = b""
            if mr:
                body += C.levels_v1(preps, mr, page.get("rep_prog", "auto"))
            if md:
                if page.get("def_enc", 3) == 4:
                    # deprecated BIT_PACKED levels: MSB-first, no length prefix
                    body += C.bitpack_msb(pdefs, C.width_for(md))
                else:
                    body += C.levels_v1(pdefs, md, page.get("def_prog", "auto"))
            body += vbytes
            comp = F.compress(body, codec)
            ph = {"type": F.P_DATA, "uncompressed_page_size": len(body), "compressed_page_size": len(comp),
                  "data_page_header": {"num_values": n, "encoding": enc_id,
                                       "definition_level_encoding": page.get("def_enc", 3),
                                       "repetition_level_encoding": page.get("rep_enc", 3)}}
            hb = tc.encode("PageHeader", ph)
            out += hb
            out += comp
            unc += len(hb) + len(body)
            k = (F.P_DATA, enc_id)
        else:
            rb = C.hybrid_encode(preps, C.width_for(mr), page.get("rep_prog", "auto")) if mr else b""
            db = C.hybrid_encode(pdefs, C.width_for(md), page.get("def_prog", "auto")) if md else b""
            flag = page.get("compressed", True)
            docomp = (flag is None or flag) and codec != 0
            comp = F.compress(vbytes, codec) if docomp else vbytes
            nrows = sum(1 for r in preps if r == 0) if mr else n
            h2 = {"num_values": n, "num_nulls": n - nv, "num_rows": nrows, "encoding": enc_id,
                  "definition_levels_byte_length": len(db), "repetition_levels_byte_length": len(rb)}
            if flag is not None:
                h2["is_compressed"] = bool(flag) if codec != 0 or flag is False else bool(flag)
            ph = {"type": F.P_DATA_V2, "uncompressed_page_size": len(rb) + len(db) + len(vbytes),
                  "compressed_page_size": len(rb) + len(db) + len(comp), "data_page_header_v2": h2}
            hb = tc.encode("PageHeader", ph)
            out += hb
            out += rb
            out += db
            out += comp
            unc += len(hb) + len(rb) + len(db) + len(vbytes)
            k = (F.P_DATA_V2, enc_id)
        if enc_id not in encodings:
            encodings.append(enc_id)
        enc_stats[k] = enc_stats.get(k, 0) + 1
    if e0 != nentries:
        raise ValueError("pages cover %d of %d entries" % (e0, nentries))
    if 3 not in encodings and (md or mr):
        encodings.append(3)
    cmd = {"type": leaf["ptype"], "encodings": encodings, "path_in_schema": list(path), "codec": codec,
           "num_values": nentries, "total_uncompressed_size": unc,
           "total_compressed_size": len(out) - start, "data_page_offset": data_off}
    if dict_off is not None:
        cmd["dictionary_page_offset"] = dict_off
    elif chunk.get("dictionary_page_offset") is not None:
        # some writers store 0 here for a chunk without dictionary page
        cmd["dictionary_page_offset"] = chunk["dictionary_page_offset"]
    if chunk.get("codec_label") is not None:
        # codec id stored in the metadata (pages are compressed with chunk["codec"]): unsupported-codec files
        cmd["codec"] = chunk["codec_label"]
    if chunk.get("stats") is not None:
        cmd["statistics"] = chunk["stats"]
    if chunk.get("encoding_stats", True):
        cmd["encoding_stats"] = [{"page_type": pt, "encoding": e, "count": c}
                                 for (pt, e), c in enc_stats.items()]
    return {"file_offset": start, "meta_data": cmd}


def write_file(spec):
    tc = tcodec()
    out = bytearray(F.MAGIC)
    cols = spec["columns"]
    rgs = []
    total = 0
    for rg in spec["row_groups"]:
        chunks = []
        nrows = None
        tbs = 0
        for col in cols:
            chunk = rg[col["name"]]
            rows = chunk["rows"]
            nrows = len(rows) if nrows is None else nrows
            if len(rows) != nrows:
                raise ValueError("columns of different length in a row group")
            streams = leaf_streams(col, rows)
            for si, (path, leaf, md, mr, reps, defs, vals) in enumerate(streams):
                sub = chunk
                if len(streams) > 1:
                    sub = dict(chunk)
                    sub["pages"] = (chunk.get("pages_key") if si == 0 else chunk.get("pages_value")) or chunk.get("pages")
                    sub["dictionary"] = (chunk.get("dictionary_key") if si == 0 else chunk.get("dictionary_value"))
                cc = write_chunk(out, path, leaf, md, mr, reps, defs, vals, sub, tc)
                tbs += cc["meta_data"]["total_uncompressed_size"]
                chunks.append(cc)
        rgs.append({"columns": chunks, "total_byte_size": tbs, "num_rows": nrows or 0})
        total += nrows or 0
    fmd = {"version": spec.get("version", 1), "schema": schema_elements(cols), "num_rows": total,
           "row_groups": rgs}
    if spec.get("created_by") is not None:
        fmd["created_by"] = spec["created_by"]
    if spec.get("kv"):
        fmd["key_value_metadata"] = [{"key": k, "value": v} for k, v in spec["kv"]]
    fb = tc.encode("FileMetaData", fmd)
    out += fb
    out += struct.pack("<I", len(fb))
    out += F.MAGIC
    return bytes(out)
