"""Bind the spec-level model to reality: (a) write -> read round trip over its own small lattice,
(b) decode third-party files of the repository's test-data and compare with independently known content
(nation.csv; literal expectations of the repository's tests).  Run by setup_cmd and by `python -m mc.specpq.selftest`."""
import csv
import os
import sys

from . import file as F
from . import writer as W


def third_party(repo):
    td = os.path.join(repo, "test-data")
    rows = list(csv.reader(open(os.path.join(td, "nation.csv")), delimiter="|"))
    checked = 0
    for name in ("nation.impala.parquet", "nation.plain.parquet", "snappy-nation.impala.parquet",
                 "gzip-nation.impala.parquet"):
        path = os.path.join(td, name)
        if not os.path.exists(path) or os.path.getsize(path) == 0:
            continue
        p = F.read_file(open(path, "rb").read())
        cols = [n.name for n in p.root.children]
        got = [F.column_rows(p, c) for c in cols]
        assert len(got[0]) == len(rows) == 25, (name, len(got[0]))
        for i, r in enumerate(rows):
            assert got[0][i] == int(r[0]), (name, i)
            assert got[1][i].decode() == r[1], (name, i)
            assert got[2][i] == int(r[2]), (name, i)
            assert got[3][i].decode() == r[3], (name, i, got[3][i][:20], r[3][:20])
        checked += 1
    # nested fixtures asserted by the repository's own tests (test_read.py / test_api.py)
    p = F.read_file(open(os.path.join(td, "datapage_v2.snappy.parquet"), "rb").read())
    assert F.column_rows(p, "a") == [b"abc", b"abc", b"abc", None, b"abc"]
    assert F.column_rows(p, "b") == [1, 2, 3, 4, 5]
    assert F.column_rows(p, "c") == [2.0, 3.0, 4.0, 5.0, 2.0]
    assert F.column_rows(p, "d") == [True, True, True, False, True]
    assert F.column_rows(p, "e") == [[1, 2, 3], None, None, [1, 2, 3], [1, 2]]
    checked += 1
    return checked


def own_lattice():
    n = 0
    for ptype, vals in ((F.T_INT32, [1, -2, 3, 2 ** 31 - 1]), (F.T_INT64, [1, -2, 2 ** 62, 0]), (F.T_DOUBLE, [1.5, -0.0, 1e300, 2.0]),
                        (F.T_BYTE_ARRAY, [b"", b"a", b"bb", b"a"]), (F.T_BOOLEAN, [True, False, True, True])):
        for rep in ("required", "optional"):
            for ver in (1, 2):
                for codec in (0, 1, 2, 6, 7):
                    for enc in ("PLAIN", "RLE_DICTIONARY"):
                        if enc != "PLAIN" and ptype == F.T_BOOLEAN:
                            continue
                        rows = list(vals)
                        if rep == "optional":
                            rows[1] = None
                        chunk = {"rows": rows, "codec": codec, "pages": [{"n": 2, "enc": enc, "v": ver}, {"n": 2, "enc": enc, "v": ver}]}
                        if enc != "PLAIN":
                            d = []
                            for v in vals:
                                if v not in d:
                                    d.append(v)
                            chunk["dictionary"] = d
                        data = W.write_file({"created_by": "specpq", "columns": [{"name": "c", "ptype": ptype, "rep": rep}],
                                             "row_groups": [{"c": chunk}]})
                        p = F.read_file(data)
                        assert not p.errors, p.errors
                        assert repr(F.column_rows(p, "c")) == repr(rows)
                        n += 1
    return n


def main():
    repo = os.environ.get("VERIF_REPO", "/repo")
    a = own_lattice()
    b = third_party(repo)
    print("specpq selftest: %d own files round-tripped, %d third-party files decoded and compared" % (a, b))


if __name__ == "__main__":
    main()
