"""Thrift compact protocol, driven by the Parquet IDL text.

Independent of fastparquet: the struct tables come from parsing parquet.thrift
(struct/union/enum declarations), never from cencoding.specs/children.

Values are plain Python: struct -> dict {field_name: value}; list -> list;
binary -> bytes; string -> str (when decoding: bytes decoded as utf8 if
possible else left as bytes); enum / ints -> int; bool -> bool; double -> float.
"""
import hashlib
import json
import os
import re
import struct as _struct

CT_STOP, CT_TRUE, CT_FALSE, CT_BYTE, CT_I16, CT_I32, CT_I64, CT_DOUBLE, \
    CT_BINARY, CT_LIST, CT_SET, CT_MAP, CT_STRUCT = range(13)

BASE = {"bool": CT_TRUE, "byte": CT_BYTE, "i8": CT_BYTE, "i16": CT_I16,
        "i32": CT_I32, "i64": CT_I64, "double": CT_DOUBLE,
        "binary": CT_BINARY, "string": CT_BINARY}
INT_BITS = {"byte": 8, "i8": 8, "i16": 16, "i32": 32, "i64": 64}


class ThriftError(Exception):
    pass


# ---------------------------------------------------------------- IDL parser
def parse_idl(text):
    """-> {"structs": {name: {"union": bool, "fields": {id: [name, req, type]}}},
           "enums": {name: {member: value}}}
    type is a string: base type, struct/enum name, or "list<T>"."""
    text = re.sub(r"/\*.*?\*/", " ", text, flags=re.S)
    text = re.sub(r"//[^\n]*", " ", text)
    text = re.sub(r"#[^\n]*", " ", text)
    structs, enums = {}, {}
    for m in re.finditer(r"\benum\s+(\w+)\s*\{(.*?)\}", text, flags=re.S):
        members = {}
        for mm in re.finditer(r"(\w+)\s*=\s*(-?\d+)", m.group(2)):
            members[mm.group(1)] = int(mm.group(2))
        enums[m.group(1)] = members
    for m in re.finditer(r"\b(struct|union)\s+(\w+)\s*\{(.*?)\}", text, flags=re.S):
        kind, name, body = m.groups()
        fields = {}
        for fm in re.finditer(
                r"(\d+)\s*:\s*(required|optional)?\s*([\w<>\s,]+?)\s+(\w+)\s*(?:=\s*[^;,\n]+)?\s*[;,]?\s*(?=\d+\s*:|$)",
                body, flags=re.S):
            fid, req, typ, fname = fm.groups()
            typ = re.sub(r"\s+", "", typ)
            fields[int(fid)] = [fname, req or ("optional" if kind == "union" else "default"), typ]
        structs[name] = {"union": kind == "union", "fields": fields}
    return {"structs": structs, "enums": enums}


_HERE = os.path.dirname(os.path.abspath(__file__))
_PIN = os.path.join(_HERE, "idl.json")
_cache = {}


def load_idl(repo=None):
    """IDL tables parsed from the repository's parquet.thrift; the pinned copy
    (idl.json) is used when the file is missing, and a difference between the
    two is reported through the returned note."""
    repo = repo or os.environ.get("VERIF_REPO", "/repo")
    if repo in _cache:
        return _cache[repo]
    pinned = json.load(open(_PIN)) if os.path.exists(_PIN) else None
    path = os.path.join(repo, "fastparquet", "parquet.thrift")
    note = None
    idl = None
    if os.path.exists(path):
        raw = open(path, "rb").read()
        sha = hashlib.sha256(raw).hexdigest()
        if pinned and pinned.get("sha256") == sha:
            idl = pinned["idl"]
        else:
            # the specification must not follow edits of the code base: the pin wins
            if pinned:
                idl = pinned["idl"]
                note = ("NOTE: fastparquet/parquet.thrift differs from the pinned IDL "
                        "(sha256 %s != %s); the pinned IDL is used as the specification"
                        % (sha[:12], pinned["sha256"][:12]))
            else:
                idl = parse_idl(raw.decode("utf8"))
    else:
        idl = pinned["idl"]
    # json turns int keys into strings
    for s in idl["structs"].values():
        s["fields"] = {int(k): v for k, v in s["fields"].items()}
    _cache[repo] = (idl, note)
    return idl, note


def write_pin(repo="/repo"):
    path = os.path.join(repo, "fastparquet", "parquet.thrift")
    raw = open(path, "rb").read()
    idl = parse_idl(raw.decode("utf8"))
    json.dump({"sha256": hashlib.sha256(raw).hexdigest(), "idl": idl},
              open(_PIN, "w"), indent=1, sort_keys=True)


# ---------------------------------------------------------------- primitives
def uvarint(n):
    if n < 0:
        raise ThriftError("negative varint")
    out = bytearray()
    while n > 0x7F:
        out.append((n & 0x7F) | 0x80)
        n >>= 7
    out.append(n)
    return bytes(out)


def read_uvarint(buf, pos, maxbytes=10):
    result = 0
    shift = 0
    n = 0
    while True:
        if pos >= len(buf):
            raise ThriftError("varint runs past end of buffer")
        b = buf[pos]
        pos += 1
        n += 1
        result |= (b & 0x7F) << shift
        if not b & 0x80:
            break
        shift += 7
        if n >= maxbytes:
            raise ThriftError("varint longer than %d bytes" % maxbytes)
    return result, pos


def zigzag(n, bits=64):
    return ((n << 1) ^ (n >> (bits - 1))) & ((1 << bits) - 1)


def unzigzag(n):
    return (n >> 1) ^ -(n & 1)


# ---------------------------------------------------------------- type helpers
class Codec:
    def __init__(self, idl=None):
        if idl is None:
            idl, _ = load_idl()
        self.structs = idl["structs"]
        self.enums = idl["enums"]

    def ctype(self, typ):
        """compact wire type for a declared type"""
        if typ in BASE:
            return BASE[typ]
        if typ.startswith("list<"):
            return CT_LIST
        if typ in self.enums:
            return CT_I32
        if typ in self.structs:
            return CT_STRUCT
        raise ThriftError("unknown type %s" % typ)

    # ------------------------------------------------------------ encoding
    def encode(self, sname, value, long_fields=False, long_lists=False):
        """long_fields: write every field header in the long form (type byte + zigzag i16 id), which the
        compact protocol allows for any field and requires when the id delta is outside 1..15;
        long_lists: write every list header in the long form (0xF? + varint size), also for sizes < 15.
        Both default to the canonical (shortest) form."""
        out = bytearray()
        self._enc_struct(sname, value, out, long_fields, long_lists)
        return bytes(out)

    def _enc_struct(self, sname, value, out, long_fields=False, long_lists=False):
        spec = self.structs[sname]
        byname = {f[0]: (fid, f) for fid, f in spec["fields"].items()}
        prev = 0
        for fname in value:
            if fname not in byname:
                raise ThriftError("%s has no field %s" % (sname, fname))
        for fid in sorted(spec["fields"]):
            fname, req, typ = spec["fields"][fid]
            v = value.get(fname)
            if v is None:
                if req == "required":
                    raise ThriftError("%s.%s is required" % (sname, fname))
                continue
            ct = self.ctype(typ)
            if ct == CT_TRUE:
                ct = CT_TRUE if v else CT_FALSE
            delta = fid - prev
            if 0 < delta <= 15 and not long_fields:
                out.append((delta << 4) | ct)
            else:
                out.append(ct)
                out += uvarint(zigzag(fid, 16))
            prev = fid
            if ct in (CT_TRUE, CT_FALSE):
                continue
            self._enc_value(typ, v, out, long_fields, long_lists)
        out.append(0)

    def _enc_value(self, typ, v, out, long_fields=False, long_lists=False):
        if typ in INT_BITS or typ in self.enums:
            bits = INT_BITS.get(typ, 32)
            if not -(1 << (bits - 1)) <= v < (1 << (bits - 1)):
                raise ThriftError("%d out of range for %s" % (v, typ))
            if typ in ("byte", "i8"):
                out.append(v & 0xFF)
            else:
                out += uvarint(zigzag(v, 64))
        elif typ == "double":
            out += _struct.pack("<d", v)
        elif typ in ("binary", "string"):
            b = v.encode("utf8") if isinstance(v, str) else bytes(v)
            out += uvarint(len(b))
            out += b
        elif typ == "bool":
            out.append(1 if v else 2)
        elif typ.startswith("list<"):
            et = typ[5:-1]
            ect = self.ctype(et)
            n = len(v)
            if n < 15 and not long_lists:
                out.append((n << 4) | ect)
            else:
                out.append(0xF0 | ect)
                out += uvarint(n)
            for item in v:
                self._enc_value(et, item, out, long_fields, long_lists)
        elif typ in self.structs:
            self._enc_struct(typ, v, out, long_fields, long_lists)
        else:
            raise ThriftError("cannot encode %s" % typ)

    # ------------------------------------------------------------ decoding
    def decode(self, sname, buf, pos=0, strict=True, exact=False, tolerate=()):
        """-> (value, end_pos).  strict: reject unknown ids, wrong wire types,
        missing required fields.  exact: reject trailing bytes.
        tolerate: set of tolerated deviations, see _dec_list."""
        buf = bytes(buf)
        self.deviations = {}
        v, pos = self._dec_struct(sname, buf, pos, strict, tolerate)
        if exact and pos != len(buf):
            raise ThriftError("%d trailing bytes after %s" % (len(buf) - pos, sname))
        return v, pos

    def _dec_struct(self, sname, buf, pos, strict, tolerate):
        spec = self.structs[sname]
        out = {}
        prev = 0
        while True:
            if pos >= len(buf):
                raise ThriftError("struct %s runs past end of buffer" % sname)
            b = buf[pos]
            pos += 1
            if b == 0:
                break
            ct = b & 0x0F
            delta = b >> 4
            if delta:
                fid = prev + delta
            else:
                z, pos = read_uvarint(buf, pos)
                fid = unzigzag(z)
            prev = fid
            if fid not in spec["fields"]:
                if strict:
                    raise ThriftError("%s: unknown field id %d (wire type %d)" % (sname, fid, ct))
                pos = self._skip(ct, buf, pos)
                continue
            fname, req, typ = spec["fields"][fid]
            want = self.ctype(typ)
            if want == CT_TRUE:
                if ct not in (CT_TRUE, CT_FALSE):
                    raise ThriftError("%s.%s: wire type %d for bool" % (sname, fname, ct))
                out[fname] = ct == CT_TRUE
                continue
            if ct != want:
                raise ThriftError("%s.%s (id %d): wire type %d, IDL declares %s = wire type %d"
                                  % (sname, fname, fid, ct, typ, want))
            if fname in out and strict:
                raise ThriftError("%s.%s repeated" % (sname, fname))
            out[fname], pos = self._dec_value(typ, buf, pos, strict, tolerate, "%s.%s" % (sname, fname))
        if strict:
            for fid, (fname, req, typ) in spec["fields"].items():
                if req == "required" and fname not in out:
                    raise ThriftError("%s: required field %s (id %d) missing" % (sname, fname, fid))
            if spec["union"] and len(out) != 1:
                raise ThriftError("union %s with %d members set" % (sname, len(out)))
        return out, pos

    def _dec_value(self, typ, buf, pos, strict, tolerate, where):
        if typ in ("byte", "i8"):
            if pos >= len(buf):
                raise ThriftError("byte past end")
            v = buf[pos]
            return (v - 256 if v > 127 else v), pos + 1
        if typ in INT_BITS or typ in self.enums:
            z, pos = read_uvarint(buf, pos)
            v = unzigzag(z)
            bits = INT_BITS.get(typ, 32)
            if not -(1 << (bits - 1)) <= v < (1 << (bits - 1)):
                raise ThriftError("%s: %d out of range for %s" % (where, v, typ))
            if strict and typ in self.enums and v not in self.enums[typ].values():
                raise ThriftError("%s: %d is not a member of enum %s" % (where, v, typ))
            return v, pos
        if typ == "double":
            if pos + 8 > len(buf):
                raise ThriftError("double past end")
            return _struct.unpack("<d", buf[pos:pos + 8])[0], pos + 8
        if typ in ("binary", "string"):
            n, pos = read_uvarint(buf, pos)
            if pos + n > len(buf):
                raise ThriftError("%s: binary of %d bytes runs past end" % (where, n))
            b = buf[pos:pos + n]
            if typ == "string":
                try:
                    return b.decode("utf8"), pos + n
                except UnicodeDecodeError:
                    return b, pos + n
            return b, pos + n
        if typ == "bool":
            if pos >= len(buf):
                raise ThriftError("bool past end")
            v = buf[pos]
            if v not in (1, 2) and strict and v != 0:
                raise ThriftError("%s: bad bool element %d" % (where, v))
            return v == 1, pos + 1
        if typ.startswith("list<"):
            et = typ[5:-1]
            if pos >= len(buf):
                raise ThriftError("list header past end")
            b = buf[pos]
            pos += 1
            ect = b & 0x0F
            n = b >> 4
            if n == 15:
                n, pos = read_uvarint(buf, pos)
            want = self.ctype(et)
            if want == CT_TRUE:
                ok = ect in (CT_TRUE, CT_FALSE)
            else:
                ok = ect == want
            if not ok:
                if n == 0 and ect == 0 and "empty_list_type0" in tolerate:
                    self.deviations["empty_list_type0"] = self.deviations.get("empty_list_type0", 0) + 1
                else:
                    raise ThriftError("%s: list element wire type %d, IDL declares %s = %d"
                                      % (where, ect, et, want))
            out = []
            for _ in range(n):
                v, pos = self._dec_value(et, buf, pos, strict, tolerate, where + "[]")
                out.append(v)
            return out, pos
        if typ in self.structs:
            return self._dec_struct(typ, buf, pos, strict, tolerate)
        raise ThriftError("cannot decode %s" % typ)

    def _skip(self, ct, buf, pos):
        if ct in (CT_TRUE, CT_FALSE):
            return pos
        if ct == CT_BYTE:
            return pos + 1
        if ct in (CT_I16, CT_I32, CT_I64):
            _, pos = read_uvarint(buf, pos)
            return pos
        if ct == CT_DOUBLE:
            return pos + 8
        if ct == CT_BINARY:
            n, pos = read_uvarint(buf, pos)
            return pos + n
        if ct in (CT_LIST, CT_SET):
            b = buf[pos]
            pos += 1
            n = b >> 4
            if n == 15:
                n, pos = read_uvarint(buf, pos)
            if b & 0x0F in (CT_TRUE, CT_FALSE):
                return pos + n          # bool elements take one byte each (only bool *fields* live in the header)
            for _ in range(n):
                pos = self._skip(b & 0x0F, buf, pos)
            return pos
        if ct == CT_MAP:
            n, pos = read_uvarint(buf, pos)
            if n:
                kv = buf[pos]
                pos += 1
                for _ in range(n):
                    pos = self._skip(kv >> 4, buf, pos)
                    pos = self._skip(kv & 0x0F, buf, pos)
            return pos
        if ct == CT_STRUCT:
            while True:
                b = buf[pos]
                pos += 1
                if b == 0:
                    return pos
                if not b >> 4:
                    _, pos = read_uvarint(buf, pos)
                pos = self._skip(b & 0x0F, buf, pos)
        raise ThriftError("cannot skip wire type %d" % ct)


_codec = None


def codec():
    global _codec
    if _codec is None:
        _codec = Codec()
    return _codec


if __name__ == "__main__":
    write_pin()
    idl, note = load_idl()
    print(len(idl["structs"]), "structs", len(idl["enums"]), "enums", note)
