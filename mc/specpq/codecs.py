"""Value and level codecs written from the Parquet encoding specification with
Python big integers (no accumulator-width assumptions)."""
import struct

from .thrift import uvarint, read_uvarint, zigzag, unzigzag


class CodecError(Exception):
    pass


# ------------------------------------------------------------- bit packing
def bitpack(values, width):
    """LSB-first packing; len(values) is padded to a multiple of 8 by the caller
    when a hybrid bit-packed run is wanted.  Packed in groups of 8 values
    (8 values of `width` bits fill exactly `width` bytes) to stay linear."""
    out = bytearray()
    values = list(values)
    for g in range(0, len(values), 8):
        acc = 0
        nbits = 0
        for v in values[g:g + 8]:
            if v < 0 or (width < 64 and v >> width) or (width == 64 and v >> 64):
                raise CodecError("value %d does not fit %d bits" % (v, width))
            acc |= v << nbits
            nbits += width
        out += acc.to_bytes((nbits + 7) // 8, "little")
    return bytes(out)


def bitunpack(buf, pos, count, width):
    """-> (values, new_pos); consumes ceil(count*width/8) bytes"""
    nbytes = (count * width + 7) // 8
    if pos + nbytes > len(buf):
        raise CodecError("bit-packed run needs %d bytes, %d available" % (nbytes, len(buf) - pos))
    mask = (1 << width) - 1
    out = []
    p = pos
    left = count
    while left > 0:
        k = min(8, left)
        nb = (k * width + 7) // 8
        acc = int.from_bytes(buf[p:p + nb], "little")
        out.extend((acc >> (i * width)) & mask for i in range(k))
        p += width if k == 8 else nb
        left -= k
    return out, pos + nbytes


def bitpack_msb(values, width):
    """deprecated BIT_PACKED level encoding: packed from the most significant bit"""
    acc = 0
    nbits = 0
    for v in values:
        acc = (acc << width) | v
        nbits += width
    pad = (-nbits) % 8
    acc <<= pad
    return acc.to_bytes((nbits + pad) // 8, "big")


# ------------------------------------------------------------- hybrid RLE
def rle_run(value, count, width):
    """one RLE run: header = count << 1, value in ceil(width/8) bytes"""
    return uvarint(count << 1) + value.to_bytes((width + 7) // 8, "little")


def bp_run(values, width):
    """one bit-packed run; values padded with zeros to a multiple of 8"""
    vals = list(values)
    groups = (len(vals) + 7) // 8
    vals += [0] * (groups * 8 - len(vals))
    return uvarint((groups << 1) | 1) + bitpack(vals, width)


def hybrid_encode(values, width, program="auto"):
    """Encode with an explicit run program.

    program: "rle"  -> maximal RLE runs only (runs of 1 allowed)
             "bp"   -> one bit-packed run
             "auto" -> RLE for runs >= 8 else bit-packed groups of 8
             list of ("rle", n) / ("bp", n): n values each; bp n must be a
             multiple of 8 except for the last run.
    """
    values = list(values)
    out = bytearray()
    if program == "bp":
        program = [("bp", len(values))]
    if program == "rle":
        i = 0
        while i < len(values):
            j = i
            while j < len(values) and values[j] == values[i]:
                j += 1
            out += rle_run(values[i], j - i, width)
            i = j
        return bytes(out)
    if program == "auto":
        i = 0
        pending = []
        while i < len(values):
            j = i
            while j < len(values) and values[j] == values[i]:
                j += 1
            if j - i >= 8 and len(pending) % 8 == 0:
                if pending:
                    out += bp_run(pending, width)
                    pending = []
                out += rle_run(values[i], j - i, width)
                i = j
            else:
                pending.append(values[i])
                i += 1
        if pending:
            out += bp_run(pending, width)
        return bytes(out)
    i = 0
    for kind, n in program:
        chunk = values[i:i + n]
        if len(chunk) != n:
            raise CodecError("run program longer than values")
        if kind == "rle":
            if any(v != chunk[0] for v in chunk):
                raise CodecError("rle run over unequal values")
            out += rle_run(chunk[0], n, width)
        else:
            out += bp_run(chunk, width)
        i += n
    if i != len(values):
        raise CodecError("run program shorter than values")
    return bytes(out)


def hybrid_decode(buf, pos, end, count, width, stats=None):
    """Decode `count` values from buf[pos:end].  Returns (values, new_pos).
    Surplus values in the last bit-packed group are dropped (tolerated)."""
    out = []
    while len(out) < count:
        if pos >= end:
            raise CodecError("hybrid stream exhausted after %d of %d values" % (len(out), count))
        header, pos = read_uvarint(buf, pos)
        if header & 1:
            n = (header >> 1) * 8
            need = count - len(out)
            if stats is not None:
                # declared groups beyond those the remaining values need (largest seen; "_max" keys are not summed)
                stats["excess_groups_max"] = max(stats.get("excess_groups_max", 0), (header >> 1) - (need + 7) // 8)
            nbytes = (n * width + 7) // 8
            if pos + nbytes > end:
                # a final group physically truncated after the last needed value
                avail_vals = ((end - pos) * 8) // width if width else n
                if avail_vals >= need:
                    if stats is not None:
                        stats["truncated_last_group"] = stats.get("truncated_last_group", 0) + 1
                    vals, _ = bitunpack(buf[:end] + b"\0" * nbytes, pos, n, width)
                    pos = end
                else:
                    raise CodecError("bit-packed run of %d values runs past end" % n)
            else:
                vals, pos = bitunpack(buf, pos, n, width)
            if n > need and stats is not None and n - need >= 8:
                stats["surplus_groups"] = stats.get("surplus_groups", 0) + 1
            out.extend(vals[:need])
        else:
            n = header >> 1
            nb = (width + 7) // 8
            if pos + nb > end:
                raise CodecError("rle value past end")
            v = int.from_bytes(buf[pos:pos + nb], "little")
            pos += nb
            if width < 64 and v >> width and width:
                raise CodecError("rle value %d wider than %d bits" % (v, width))
            need = count - len(out)
            if n > need and stats is not None:
                stats["surplus_rle"] = stats.get("surplus_rle", 0) + 1
            out.extend([v] * min(n, need))
    return out, pos


def width_for(maxval):
    return maxval.bit_length()


# ------------------------------------------------------------- PLAIN
PHYS = {"BOOLEAN": 0, "INT32": 1, "INT64": 2, "INT96": 3, "FLOAT": 4, "DOUBLE": 5,
        "BYTE_ARRAY": 6, "FIXED_LEN_BYTE_ARRAY": 7}
PHYS_NAME = {v: k for k, v in PHYS.items()}


def plain_encode(values, ptype, type_length=None):
    """values: python ints / floats / bools / bytes (INT96: 12-byte bytes)"""
    t = PHYS_NAME.get(ptype, ptype)
    if t == "BOOLEAN":
        return bitpack([1 if v else 0 for v in values], 1)
    if t == "INT32":
        return b"".join(struct.pack("<i", v) for v in values)
    if t == "INT64":
        return b"".join(struct.pack("<q", v) for v in values)
    if t == "FLOAT":
        return b"".join(struct.pack("<f", v) for v in values)
    if t == "DOUBLE":
        return b"".join(struct.pack("<d", v) for v in values)
    if t == "INT96":
        for v in values:
            if len(v) != 12:
                raise CodecError("INT96 value must be 12 bytes")
        return b"".join(values)
    if t == "BYTE_ARRAY":
        return b"".join(struct.pack("<I", len(v)) + bytes(v) for v in values)
    if t == "FIXED_LEN_BYTE_ARRAY":
        for v in values:
            if len(v) != type_length:
                raise CodecError("FLBA value of length %d != %d" % (len(v), type_length))
        return b"".join(bytes(v) for v in values)
    raise CodecError("unknown physical type %r" % (ptype,))


def plain_decode(buf, pos, end, count, ptype, type_length=None):
    """-> (values, new_pos)"""
    t = PHYS_NAME.get(ptype, ptype)
    if t == "BOOLEAN":
        vals, pos2 = bitunpack(buf[:end], pos, count, 1)
        return [bool(v) for v in vals], pos2
    fixed = {"INT32": ("<i", 4), "INT64": ("<q", 8), "FLOAT": ("<f", 4), "DOUBLE": ("<d", 8)}
    if t in fixed:
        fmt, sz = fixed[t]
        if pos + sz * count > end:
            raise CodecError("PLAIN %s: %d values need %d bytes, %d available" % (t, count, sz * count, end - pos))
        return [struct.unpack_from(fmt, buf, pos + i * sz)[0] for i in range(count)], pos + sz * count
    if t == "INT96":
        if pos + 12 * count > end:
            raise CodecError("PLAIN INT96 past end")
        return [bytes(buf[pos + 12 * i: pos + 12 * i + 12]) for i in range(count)], pos + 12 * count
    if t == "FIXED_LEN_BYTE_ARRAY":
        if pos + type_length * count > end:
            raise CodecError("PLAIN FLBA past end")
        return [bytes(buf[pos + type_length * i: pos + type_length * (i + 1)]) for i in range(count)], \
            pos + type_length * count
    if t == "BYTE_ARRAY":
        out = []
        for _ in range(count):
            if pos + 4 > end:
                raise CodecError("BYTE_ARRAY length past end")
            n = struct.unpack_from("<I", buf, pos)[0]
            pos += 4
            if pos + n > end:
                raise CodecError("BYTE_ARRAY of %d bytes past end" % n)
            out.append(bytes(buf[pos:pos + n]))
            pos += n
        return out, pos
    raise CodecError("unknown physical type %r" % (ptype,))


# ------------------------------------------------------------- DELTA_BINARY_PACKED
def _wrap(v, bits):
    """two's complement wrap to signed `bits`"""
    v &= (1 << bits) - 1
    if v >> (bits - 1):
        v -= 1 << bits
    return v


def delta_encode(values, bits=64, block_size=128, miniblocks=4, force_widths=None):
    """Spec encoder.  Arithmetic wraps modulo 2**bits like the reference
    implementations (deltas of extreme values overflow by design).
    force_widths: optional callable (block_idx, mini_idx, needed_width) -> width
    (>= needed) to force wider-than-needed miniblocks."""
    values = list(values)
    out = bytearray()
    out += uvarint(block_size)
    out += uvarint(miniblocks)
    out += uvarint(len(values))
    first = values[0] if values else 0
    out += uvarint(zigzag(_wrap(first, 64), 64))
    per_mini = block_size // miniblocks
    deltas = [_wrap(values[i + 1] - values[i], bits) for i in range(len(values) - 1)]
    bi = 0
    for start in range(0, len(deltas), block_size):
        block = deltas[start:start + block_size]
        min_delta = min(block)
        out += uvarint(zigzag(_wrap(min_delta, 64), 64))
        widths = []
        packed = []
        for m in range(miniblocks):
            mini = block[m * per_mini:(m + 1) * per_mini]
            if not mini:
                widths.append(0)
                continue
            rel = [(d - min_delta) & ((1 << bits) - 1) for d in mini]
            w = max(r.bit_length() for r in rel)
            if force_widths:
                w = force_widths(bi, m, w)
            rel += [0] * (per_mini - len(rel))
            widths.append(w)
            packed.append(bitpack(rel, w))
        out += bytes(widths)
        for p in packed:
            out += p
        bi += 1
    return bytes(out)


def delta_decode(buf, pos, end, bits=64, expect_count=None):
    """-> (values, new_pos)"""
    block_size, pos = read_uvarint(buf, pos)
    miniblocks, pos = read_uvarint(buf, pos)
    total, pos = read_uvarint(buf, pos)
    z, pos = read_uvarint(buf, pos)
    value = unzigzag(z)
    if miniblocks == 0 or block_size % 128 or (block_size // miniblocks) % 32:
        raise CodecError("bad delta block shape %d/%d" % (block_size, miniblocks))
    per_mini = block_size // miniblocks
    out = []
    if total:
        out.append(_wrap(value, bits))
    while len(out) < total:
        z, pos = read_uvarint(buf, pos)
        min_delta = unzigzag(z)
        if pos + miniblocks > end:
            raise CodecError("delta widths past end")
        widths = list(buf[pos:pos + miniblocks])
        pos += miniblocks
        for w in widths:
            if len(out) >= total:
                break   # unused miniblocks carry no data
            if w > 64:
                raise CodecError("delta miniblock width %d" % w)
            vals, pos = bitunpack(buf[:end], pos, per_mini, w)
            for d in vals:
                if len(out) >= total:
                    break
                value = _wrap(value + min_delta + d, bits)
                out.append(value)
    return out, pos


# ------------------------------------------------------------- levels (v1 framing)
def levels_v1(levels, maxlevel, program="auto"):
    w = width_for(maxlevel)
    body = hybrid_encode(levels, w, program)
    return struct.pack("<I", len(body)) + body
