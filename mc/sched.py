"""Cooperative thread scheduler for stateless, preemption-bounded schedule exploration.

Real threading.Thread objects run the real library code; a trace function raises
a scheduling point at every `line` event whose frame belongs to one of the
target source files.  One baton (a semaphore per thread) guarantees that exactly
one thread runs; at a point the schedule either lets the running thread continue
(choice 0) or hands the baton to another enabled thread (choice k > 0 = the k-th
other thread in ascending id order) - a preemption.

A schedule is a sparse dict {point index: choice}; every other point takes
choice 0.  The recorded trace [(tid, file, line)] makes replays checkable.
"""
import hashlib
import sys
import threading


class Divergence(Exception):
    pass


class Execution:
    def __init__(self, bodies, schedule, files, horizon=400000, expect=None, shared=()):
        """bodies: list of callables; schedule: {index: alt}; files: set of basenames (under fastparquet/)
        expect: optional (index, digest) - trace digest the replay must have reached at `index`
        shared: objects shared by the threads; a point is a *focus* point when it lies in a frame that received
        one of them as an argument (the frames that can touch the shared state directly)"""
        self.shared = {id(o) for o in shared}
        self._keep = list(shared)
        self.focus = []
        self.bodies = bodies
        self.n = len(bodies)
        self.schedule = dict(schedule)
        self.files = files
        self.horizon = horizon
        self.expect = expect
        self.sems = [threading.Semaphore(0) for _ in range(self.n)]
        self.main = threading.Semaphore(0)
        self.done = [False] * self.n
        self.results = [None] * self.n
        self.trace = []
        self.enabled_n = []
        self.preempt_cost = []      # 1 if a non-zero choice at this point is a preemption
        self.npoints = 0
        self.error = None
        self._h = hashlib.blake2b(digest_size=8)
        self.digests = {}

    # ------------------------------------------------------------------
    def _decide(self, tid, running_enabled, label, focus=0):
        i = self.npoints
        self.npoints += 1
        self.focus.append(focus)
        if self.expect is not None and i == self.expect[0]:
            if self._h.hexdigest() != self.expect[1]:
                self.error = "replay diverged before point %d" % i
                raise Divergence(self.error)
        self.trace.append(label)
        self._h.update(repr(label).encode())
        if i % 64 == 0 or i in self.schedule:
            pass
        others = [t for t in range(self.n) if t != tid and not self.done[t]]
        enabled = ([tid] if running_enabled else []) + others
        self.enabled_n.append(len(enabled))
        self.preempt_cost.append(1 if running_enabled else 0)
        alt = self.schedule.get(i, 0)
        if not enabled:
            return None
        if alt >= len(enabled):
            self.error = "schedule choice %d at point %d but only %d threads enabled" % (alt, i, len(enabled))
            raise Divergence(self.error)
        if i > self.horizon:
            self.error = "horizon exceeded"
            raise Divergence(self.error)
        return enabled[alt] if enabled else None

    def digest_at(self):
        return self._h.hexdigest()

    def _point(self, tid, frame, focus=0):
        fn = frame.f_code.co_filename
        nxt = self._decide(tid, True, (tid, fn[fn.rfind("/") + 1:], frame.f_lineno), focus)
        # remember the digest *before* this point for children that deviate here
        if nxt != tid:
            self.sems[nxt].release()
            self.sems[tid].acquire()

    def _make_tracer(self, tid):
        files = self.files

        shared = self.shared

        def local(frame, event, arg):
            if event == "line":
                self._point(tid, frame)
            return local

        def local_focus(frame, event, arg):
            if event == "line":
                self._point(tid, frame, 1)
            return local_focus

        def tracer(frame, event, arg):
            if event == "call":
                fn = frame.f_code.co_filename
                if "fastparquet" in fn and fn[fn.rfind("/") + 1:] in files:
                    # at the call event the frame's locals are exactly its arguments
                    if shared and any(id(v) in shared for v in frame.f_locals.values()):
                        return local_focus
                    return local
            return None
        return tracer

    def _thread(self, tid):
        self.sems[tid].acquire()
        try:
            sys.settrace(self._make_tracer(tid))
            try:
                self.results[tid] = ("ok", self.bodies[tid]())
            except Divergence:
                self.results[tid] = ("diverged", None)
            except BaseException as e:  # the library call failed: that is an observation
                self.results[tid] = ("raised", "%s: %s" % (type(e).__name__, str(e)[:200]))
            finally:
                sys.settrace(None)
        finally:
            self.done[tid] = True
            try:
                nxt = self._decide(tid, False, (tid, "<end>", 0))
            except Divergence:
                nxt = None
                rest = [t for t in range(self.n) if not self.done[t]]
                nxt = rest[0] if rest else None
            if nxt is None:
                self.main.release()
            else:
                self.sems[nxt].release()

    def run(self):
        threads = [threading.Thread(target=self._thread, args=(t,), daemon=True) for t in range(self.n)]
        for t in threads:
            t.start()
        first = self.schedule.get(-1, 0)
        self.sems[first].release()
        if not self.main.acquire(timeout=120):
            self.error = self.error or "deadlock or hang: no thread finished the run"
        for t in threads:
            t.join(timeout=5)
        return self


def prefix_digests(trace):
    """digest of trace[:i] for every i (used to validate replays of children)"""
    h = hashlib.blake2b(digest_size=8)
    out = [h.hexdigest()]
    for label in trace:
        h.update(repr(label).encode())
        out.append(h.hexdigest())
    return out
