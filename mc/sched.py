"""Cooperative thread scheduler for stateless, preemption-bounded schedule exploration.

Real threading.Thread objects run the real library code; a trace function raises
a scheduling point at every `line` event whose frame belongs to one of the
target source files.  One baton (a semaphore per thread) guarantees that exactly
one thread runs; at a point the schedule either lets the running thread continue
(choice 0) or hands the baton to another enabled thread (choice k > 0 = the k-th
other thread in ascending id order) - a preemption.

A schedule is a sparse dict {point index: choice}; every other point takes
choice 0.  The recorded trace [(tid, file, line)] makes replays checkable.
"""
import hashlib
import sys
import threading


class Divergence(Exception):
    pass


class Execution:
    def __init__(self, bodies, schedule, files, horizon=400000, expect=None, shared=(), write_lines=None):
        """bodies: list of callables; schedule: {index: alt}; files: set of basenames (under fastparquet/)
        expect: optional (index, digest) - trace digest the replay must have reached at `index`
        shared: objects shared by the threads; a point is a *focus* point when it lies in a frame that received
        one of them as an argument (the frames that can touch the shared state directly)
        write_lines: optional, one collection of (file, line) per thread: a point of thread t is (also) a focus
        point when the line event that thread t raised just before it is in write_lines[t] - the *write points*
        found by write_points() below: the first point at which another thread can see what that line wrote"""
        self.write_lines = [frozenset((f, int(l)) for f, l in w) for w in write_lines] if write_lines else None
        self.shared = {id(o) for o in shared}
        self._keep = list(shared)
        self.focus = []
        self.bodies = bodies
        self.n = len(bodies)
        self.schedule = dict(schedule)
        self.files = files
        self.horizon = horizon
        self.expect = expect
        self.sems = [threading.Semaphore(0) for _ in range(self.n)]
        self.main = threading.Semaphore(0)
        self.done = [False] * self.n
        self.results = [None] * self.n
        self.trace = []
        self.enabled_n = []
        self.preempt_cost = []      # 1 if a non-zero choice at this point is a preemption
        self.npoints = 0
        self.error = None
        self._h = hashlib.blake2b(digest_size=8)
        self.digests = {}

    # ------------------------------------------------------------------
    def _decide(self, tid, running_enabled, label, focus=0):
        i = self.npoints
        self.npoints += 1
        self.focus.append(focus)
        if self.expect is not None and i == self.expect[0]:
            if self._h.hexdigest() != self.expect[1]:
                self.error = "replay diverged before point %d" % i
                raise Divergence(self.error)
        self.trace.append(label)
        self._h.update(repr(label).encode())
        if i % 64 == 0 or i in self.schedule:
            pass
        others = [t for t in range(self.n) if t != tid and not self.done[t]]
        enabled = ([tid] if running_enabled else []) + others
        self.enabled_n.append(len(enabled))
        self.preempt_cost.append(1 if running_enabled else 0)
        alt = self.schedule.get(i, 0)
        if not enabled:
            return None
        if alt >= len(enabled):
            self.error = "schedule choice %d at point %d but only %d threads enabled" % (alt, i, len(enabled))
            raise Divergence(self.error)
        if i > self.horizon:
            self.error = "horizon exceeded"
            raise Divergence(self.error)
        return enabled[alt] if enabled else None

    def digest_at(self):
        return self._h.hexdigest()

    def _point(self, tid, frame, focus=0):
        fn = frame.f_code.co_filename
        nxt = self._decide(tid, True, (tid, fn[fn.rfind("/") + 1:], frame.f_lineno), focus)
        # remember the digest *before* this point for children that deviate here
        if nxt != tid:
            self.sems[nxt].release()
            self.sems[tid].acquire()

    def _make_tracer(self, tid):
        files = self.files

        shared = self.shared
        wl = self.write_lines[tid] if self.write_lines and tid < len(self.write_lines) else None
        prev = [None]       # label (file, line) of the previous line event of this thread

        def after_write(frame):
            fn = frame.f_code.co_filename
            was = prev[0]
            prev[0] = (fn[fn.rfind("/") + 1:], frame.f_lineno)
            return 1 if was in wl else 0

        def local(frame, event, arg):
            if event == "line":
                self._point(tid, frame, after_write(frame) if wl is not None else 0)
            return local

        def local_focus(frame, event, arg):
            if event == "line":
                if wl is not None:
                    after_write(frame)
                self._point(tid, frame, 1)
            return local_focus

        def tracer(frame, event, arg):
            if event == "call":
                fn = frame.f_code.co_filename
                if "fastparquet" in fn and fn[fn.rfind("/") + 1:] in files:
                    # at the call event the frame's locals are exactly its arguments
                    if shared and any(id(v) in shared for v in frame.f_locals.values()):
                        return local_focus
                    return local
            return None
        return tracer

    def _thread(self, tid):
        self.sems[tid].acquire()
        try:
            sys.settrace(self._make_tracer(tid))
            try:
                self.results[tid] = ("ok", self.bodies[tid]())
            except Divergence:
                self.results[tid] = ("diverged", None)
            except BaseException as e:  # the library call failed: that is an observation
                self.results[tid] = ("raised", "%s: %s" % (type(e).__name__, str(e)[:200]))
            finally:
                sys.settrace(None)
        finally:
            self.done[tid] = True
            try:
                nxt = self._decide(tid, False, (tid, "<end>", 0))
            except Divergence:
                nxt = None
                rest = [t for t in range(self.n) if not self.done[t]]
                nxt = rest[0] if rest else None
            if nxt is None:
                self.main.release()
            else:
                self.sems[nxt].release()

    def run(self):
        threads = [threading.Thread(target=self._thread, args=(t,), daemon=True) for t in range(self.n)]
        for t in threads:
            t.start()
        first = self.schedule.get(-1, 0)
        self.sems[first].release()
        if not self.main.acquire(timeout=120):
            self.error = self.error or "deadlock or hang: no thread finished the run"
        for t in threads:
            t.join(timeout=5)
        return self


def prefix_digests(trace):
    """digest of trace[:i] for every i (used to validate replays of children)"""
    h = hashlib.blake2b(digest_size=8)
    out = [h.hexdigest()]
    for label in trace:
        h.update(repr(label).encode())
        out.append(h.hexdigest())
    return out


# ---------------------------------------------------------------------------------------------------
# sequential transient-write detector (additive; used by C20 for its read programs)
def write_points(body, files, fingerprint):
    """Run `body` alone under a line tracer over the same files as Execution and evaluate fingerprint() at every
    line event.  Returns (write_lines, n_events, n_writes, exception or None): write_lines = sorted list of [file, line] labels of the
    line events after which (= before the next line event of the thread) the fingerprint had changed; a write made
    after the last line event cannot be seen by a point of this thread and is not reported."""
    out = set()
    state = {"fp": fingerprint(), "prev": None, "n": 0, "w": 0}

    def local(frame, event, arg):
        if event == "line":
            fp = fingerprint()
            if fp != state["fp"]:
                state["fp"] = fp
                state["w"] += 1
                if state["prev"] is not None:
                    out.add(state["prev"])
            fn = frame.f_code.co_filename
            state["prev"] = (fn[fn.rfind("/") + 1:], frame.f_lineno)
            state["n"] += 1
        return local

    def tracer(frame, event, arg):
        if event == "call":
            fn = frame.f_code.co_filename
            if "fastparquet" in fn and fn[fn.rfind("/") + 1:] in files:
                return local
        return None
    err = None
    sys.settrace(tracer)
    try:
        body()
    except BaseException as e:      # the op itself failing is reported by the caller's own sequential run
        err = e
    finally:
        sys.settrace(None)
    return sorted([f, l] for f, l in out), state["n"], state["w"], err
