"""Overlay of /repo's working tree + extension build (plain / sanitised).

overlay(flavour) -> (overlay_dir, env)  where env is the environment for worker
processes: PYTHONPATH=<overlay> so that `import fastparquet` resolves to the
overlay, whose *.py files are symlinks into REPO/fastparquet and whose two
extension modules are compiled from REPO/fastparquet/{cencoding,speedups}.c as
they are in the working tree right now.  Compiled objects are cached by content
hash under /verif/.build.
"""
import hashlib
import os
import shutil
import subprocess
import sys
import sysconfig
import tempfile

from . import VERIF, REPO, PY

CACHE = os.path.join(VERIF, ".build")
WORK = os.path.join(VERIF, ".work")
EXT_SUFFIX = ".cpython-312-x86_64-linux-gnu.so"
ASAN_RT = "/usr/lib/llvm-14/lib/clang/14.0.6/lib/linux/libclang_rt.asan-x86_64.so"

FLAGS = {
    "plain": ["gcc", "-O2", "-shared", "-fPIC", "-fwrapv", "-fno-strict-aliasing",
              "-w"],
    "asan": ["clang", "-O1", "-g", "-shared", "-fPIC", "-fwrapv",
             "-fno-strict-aliasing", "-w",
             "-fsanitize=address,undefined", "-fno-sanitize=alignment",
             "-fno-sanitize-recover=undefined", "-fno-omit-frame-pointer",
             "-shared-libasan"],
}

PYX_PINS = os.path.join(VERIF, "mc", "pyx_pins.json")


def _includes():
    out = subprocess.run(
        [PY, "-c",
         "import numpy,sysconfig;print(numpy.get_include());print(sysconfig.get_paths()['include'])"],
        capture_output=True, text=True, check=True).stdout.split()
    return out[0], out[1]


def _sha(path):
    h = hashlib.sha256()
    with open(path, "rb") as f:
        h.update(f.read())
    return h.hexdigest()


def _compile(cfile, flavour, notes):
    np_inc, py_inc = _includes()
    flags = FLAGS[flavour]
    key = hashlib.sha256(
        (_sha(cfile) + " ".join(flags) + np_inc + py_inc).encode()).hexdigest()[:24]
    d = os.path.join(CACHE, key)
    name = os.path.basename(cfile)[:-2] + EXT_SUFFIX
    so = os.path.join(d, name)
    if os.path.exists(so):
        return so
    os.makedirs(d, exist_ok=True)
    tmp = so + ".tmp%d" % os.getpid()
    cmd = flags + ["-I", np_inc, "-I", py_inc, cfile, "-o", tmp]
    r = subprocess.run(cmd, capture_output=True, text=True)
    if r.returncode != 0:
        sys.stderr.write(r.stderr[-4000:])
        raise RuntimeError("extension build failed: %s" % " ".join(cmd))
    os.replace(tmp, so)
    return so


def check_pyx_pins(repo, notes):
    """NOTE (never a violation) when a .pyx differs from its pin while the
    generated .c is unchanged: compiled code may not reflect the .pyx."""
    import json
    try:
        pins = json.load(open(PYX_PINS))
    except Exception:
        return
    for base in ("cencoding", "speedups"):
        pyx = os.path.join(repo, "fastparquet", base + ".pyx")
        c = os.path.join(repo, "fastparquet", base + ".c")
        if not (os.path.exists(pyx) and os.path.exists(c)):
            continue
        if _sha(pyx) != pins.get(base + ".pyx") and _sha(c) == pins.get(base + ".c"):
            notes.append("NOTE: %s.pyx differs from its pin but %s.c is unchanged; "
                         "Cython is not installed, the compiled code does not "
                         "reflect the .pyx edit" % (base, base))


def overlay(flavour="plain", repo=None):
    repo = repo or REPO
    notes = []
    src = os.path.join(repo, "fastparquet")
    os.makedirs(WORK, exist_ok=True)
    top = tempfile.mkdtemp(prefix="overlay-%s-" % flavour, dir=WORK)
    pkg = os.path.join(top, "fastparquet")
    os.makedirs(pkg)
    for name in os.listdir(src):
        if name.endswith((".so", ".c", ".pyc", ".html")) or name == "__pycache__":
            continue
        os.symlink(os.path.join(src, name), os.path.join(pkg, name))
    for base in ("cencoding", "speedups"):
        cfile = os.path.join(src, base + ".c")
        if not os.path.exists(cfile):
            raise RuntimeError("%s missing: cannot build extension (no Cython)" % cfile)
        so = _compile(cfile, flavour, notes)
        os.symlink(so, os.path.join(pkg, base + EXT_SUFFIX))
    check_pyx_pins(repo, notes)
    env = dict(os.environ)
    env["PYTHONPATH"] = top + os.pathsep + VERIF
    env["PYTHONHASHSEED"] = "0"
    env["PYTHONDONTWRITEBYTECODE"] = "1"
    env["VERIF_OVERLAY"] = top
    env["VERIF_FLAVOUR"] = flavour
    env.pop("FASTPARQUET_DATAPAGE_V2", None)
    if flavour == "asan":
        env["LD_PRELOAD"] = ASAN_RT
        env["ASAN_OPTIONS"] = ("detect_leaks=0:abort_on_error=1:"
                               "allocator_may_return_null=1:handle_segv=1")
        env["UBSAN_OPTIONS"] = "halt_on_error=1:print_stacktrace=1:abort_on_error=1"
    return top, env, notes


def cleanup(top):
    shutil.rmtree(top, ignore_errors=True)


def assert_overlay():
    """Called inside workers: the library under test must come from the overlay."""
    top = os.environ.get("VERIF_OVERLAY")
    import fastparquet
    import fastparquet.cencoding as ce
    import fastparquet.speedups as sp
    for m in (fastparquet, ce, sp):
        if not os.path.abspath(m.__file__).startswith(top):
            raise RuntimeError("module %s not from overlay: %s" % (m.__name__, m.__file__))


if __name__ == "__main__":
    # setup_cmd: warm the build cache for both flavours
    for fl in ("plain", "asan"):
        top, env, notes = overlay(fl)
        r = subprocess.run([PY, "-c", "from mc.build import assert_overlay; assert_overlay(); print('ok')"],
                           env=env, capture_output=True, text=True)
        print(fl, r.stdout.strip(), r.stderr.strip()[-500:])
        cleanup(top)
        for n in notes:
            print(n)
        if r.returncode:
            sys.exit(1)
