"""Per-process scratch directory on tmpfs, emptied for every task."""
import atexit
import os
import shutil

_DIR = None


def _cleanup():
    if _DIR:
        shutil.rmtree(_DIR, ignore_errors=True)


def scratch(sub=None):
    """Return an empty scratch directory (fresh for each call without sub)."""
    global _DIR
    if _DIR is None:
        _DIR = "/dev/shm/verif-%d" % os.getpid()
        atexit.register(_cleanup)
    if sub is None:
        shutil.rmtree(_DIR, ignore_errors=True)
        os.makedirs(_DIR)
        return _DIR
    p = os.path.join(_DIR, sub)
    os.makedirs(p, exist_ok=True)
    return p


def mark(text):
    """Record the case about to run in the worker log, so that a crash can be
    attributed to one concrete input inside a cell (last MARK line wins)."""
    import sys
    sys.stderr.write("MARK " + text + "\n")
    sys.stderr.flush()
