"""Crash-tolerant worker pool.

Tasks are (module, function, point) triples executed in long-lived worker
processes (PY with the overlay environment).  Results come back in order per
worker, so when a worker dies the first outstanding task is the one that
crashed: it gets outcome "crash" (with signal and the tail of the worker's
stderr log, where a sanitizer report lands) and the remaining tasks of its
batch are re-queued.  Hangs are converted to "timeout" the same way.

The work list may grow while running (on_result may submit more tasks): that is
what the history (BFS) and schedule (DFS over prefixes) explorers use.
"""
import collections
import os
import pickle
import selectors
import signal
import struct
import subprocess
import sys
import tempfile
import time

from . import PY, VERIF


def _send(f, obj):
    data = pickle.dumps(obj, protocol=4)
    f.write(struct.pack("<I", len(data)))
    f.write(data)
    f.flush()


def _recv(f):
    head = f.read(4)
    if len(head) < 4:
        return None
    n = struct.unpack("<I", head)[0]
    data = b""
    while len(data) < n:
        chunk = f.read(n - len(data))
        if not chunk:
            return None
        data += chunk
    return pickle.loads(data)


def _is_fresh(task):
    p = task[3]
    return isinstance(p, dict) and bool(p.get("_fresh"))


class _Worker:
    def __init__(self, env, idx, logdir):
        self.idx = idx
        r_task, w_task = os.pipe()
        r_res, w_res = os.pipe()
        self.logpath = os.path.join(logdir, "worker-%d-%d.log" % (idx, time.time_ns()))
        self.log = open(self.logpath, "wb")
        e = dict(env)
        e["VERIF_TASK_FD"] = str(r_task)
        e["VERIF_RES_FD"] = str(w_res)
        self.proc = subprocess.Popen(
            [PY, "-u", "-m", "mc.worker"], env=e, pass_fds=(r_task, w_res),
            stdin=subprocess.DEVNULL, stdout=self.log, stderr=self.log,
            cwd=VERIF)
        os.close(r_task)
        os.close(w_res)
        self.to = os.fdopen(w_task, "wb")
        self.frm = os.fdopen(r_res, "rb", buffering=0)
        self.buf = bytearray()
        self.outstanding = collections.deque()
        self.last = time.time()

    def messages(self):
        """Read what is available; return (list of complete messages, eof)."""
        try:
            chunk = os.read(self.frm.fileno(), 1 << 20)
        except OSError:
            chunk = b""
        eof = not chunk
        self.buf += chunk
        out = []
        while len(self.buf) >= 4:
            n = struct.unpack("<I", self.buf[:4])[0]
            if len(self.buf) < 4 + n:
                break
            out.append(pickle.loads(bytes(self.buf[4:4 + n])))
            del self.buf[:4 + n]
        return out, eof

    def send(self, batch):
        for t in batch:
            self.outstanding.append(t)
        self.last = time.time()
        try:
            _send(self.to, batch)
        except (BrokenPipeError, OSError):
            pass

    def kill(self):
        try:
            self.proc.kill()
        except Exception:
            pass
        self.proc.wait()
        for f in (self.to, self.frm, self.log):
            try:
                f.close()
            except Exception:
                pass

    def log_tail(self, n=3000):
        """key sanitizer lines of the last 400 KB + the raw tail"""
        try:
            with open(self.logpath, "rb") as f:
                f.seek(0, 2)
                size = f.tell()
                f.seek(max(0, size - 400000))
                txt = f.read().decode("utf8", "replace")
            keys = [l for l in txt.splitlines()
                    if "runtime error:" in l or "ERROR: AddressSanitizer" in l or l.startswith("SUMMARY:")
                    or "Fatal Python error" in l]
            marks = [l for l in txt.splitlines() if l.startswith("MARK ")]
            return "\n".join(marks[-1:] + keys[-6:]) + "\n----\n" + txt[-n:]
        except Exception:
            return ""


class Pool:
    def __init__(self, env, nworkers=None, batch=16, timeout=120.0):
        self.env = env
        self.n = nworkers or int(os.environ.get("VERIF_WORKERS", "16"))
        self.batch = batch
        self.timeout = timeout
        self.logdir = tempfile.mkdtemp(prefix="poollog-", dir=os.path.join(VERIF, ".work"))
        self.workers = []
        self.sel = selectors.DefaultSelector()
        self.queue = collections.deque()
        self.next_id = 0
        self.crashes = 0

    # -- task submission -------------------------------------------------
    def submit(self, mod, fn, point, tag=None):
        tid = self.next_id
        self.next_id += 1
        self.queue.append((tid, mod, fn, point, tag))
        return tid

    def _spawn(self):
        w = _Worker(self.env, len(self.workers), self.logdir)
        self.sel.register(w.frm, selectors.EVENT_READ, w)
        return w

    def _respawn(self, w):
        self.sel.unregister(w.frm)
        w.kill()
        nw = _Worker(self.env, w.idx, self.logdir)
        self.sel.register(nw.frm, selectors.EVENT_READ, nw)
        self.workers[self.workers.index(w)] = nw
        return nw

    def _feed(self, w):
        if not self.queue or w.outstanding:
            return
        b = []
        # adaptive batch: never give one worker more than its fair share
        size = max(1, min(self.batch, (len(self.queue) + self.n - 1) // self.n))
        while self.queue and len(b) < size:
            fresh = _is_fresh(self.queue[0])
            if fresh and b:
                break
            b.append(self.queue.popleft())
            if fresh:
                break
        w.send(b)

    def run(self, on_result):
        """Run until the queue is empty and nothing is in flight.
        on_result(task, result) may call submit()."""
        while len(self.workers) < min(self.n, max(1, len(self.queue))):
            self.workers.append(self._spawn())
        while True:
            for w in self.workers:
                self._feed(w)
            if not any(w.outstanding for w in self.workers):
                if not self.queue:
                    break
                continue
            events = self.sel.select(timeout=1.0)
            now = time.time()
            for key, _ in events:
                w = key.data
                msgs, eof = w.messages()
                respawn = False
                for tid, res in msgs:
                    w.last = now
                    task = w.outstanding.popleft()
                    assert task[0] == tid, (task[0], tid)
                    on_result(task, res)
                    respawn = respawn or _is_fresh(task)
                if respawn and not w.outstanding:
                    self._respawn(w)      # one process per 'fresh' point
                elif eof:
                    self._dead(w, on_result, "crash")
            for w in list(self.workers):
                if w.outstanding and now - w.last > self.timeout:
                    self._dead(w, on_result, "timeout")
            # grow the pool if work appeared
            while len(self.workers) < self.n and len(self.queue) > len(self.workers):
                self.workers.append(self._spawn())

    def _dead(self, w, on_result, kind):
        if kind == "timeout":
            try:
                w.proc.send_signal(signal.SIGKILL)
            except Exception:
                pass
        try:
            rc = w.proc.wait(timeout=10)
        except Exception:
            w.proc.kill()
            rc = w.proc.wait()
        tail = w.log_tail()
        out = list(w.outstanding)
        w.outstanding.clear()
        nw = self._respawn(w)
        if not out:
            return
        self.crashes += 1
        culprit, rest = out[0], out[1:]
        for t in reversed(rest):
            self.queue.appendleft(t)
        on_result(culprit, {"ok": False, "outcome": kind, "rc": rc,
                            "log_tail": tail[-4500:]})

    def close(self):
        for w in self.workers:
            try:
                _send(w.to, None)
            except Exception:
                pass
        for w in self.workers:
            try:
                w.proc.wait(timeout=3)
            except Exception:
                pass
            w.kill()
        self.workers = []
        import shutil
        shutil.rmtree(self.logdir, ignore_errors=True)
