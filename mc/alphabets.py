"""Column kinds, value pools, null patterns, row counts, frames (DESIGN.md section 4).

Everything here is deterministic: a column of n rows takes pool values
cyclically from a given offset; null placement is a named pattern.
"""

NULLPATS = ["none", "first", "last", "alt", "all"]


def nullmask(pat, n):
    return [{"none": False, "first": i == 0, "last": i == n - 1, "alt": i % 2 == 1, "all": True}[pat]
            for i in range(n)]


# kind -> can the dtype hold missing values
NULLABLE_KINDS = {
    "float32", "float64", "str_obj", "str_pd", "bytes_obj", "json_obj",
    "dt_s", "dt_ms", "dt_us", "dt_ns", "dt_ns_utc", "dt_us_paris", "dt_ns_offset", "td_ns", "td_us",
    "cat_str", "cat_str_ordered", "cat_int", "cat_unused",
    "Int8", "Int16", "Int32", "Int64", "UInt8", "UInt16", "UInt32", "UInt64", "boolean",
}
NUMPY_INT = ["int8", "int16", "int32", "int64", "uint8", "uint16", "uint32", "uint64"]
ALL_KINDS = (["bool"] + NUMPY_INT + ["float32", "float64", "str_obj", "str_pd", "bytes_obj", "json_obj",
             "dt_s", "dt_ms", "dt_us", "dt_ns", "dt_ns_utc", "dt_us_paris", "dt_ns_offset", "td_ns", "td_us",
             "cat_str", "cat_str_ordered", "cat_int", "cat_unused",
             "Int8", "Int16", "Int32", "Int64", "UInt8", "UInt16", "UInt32", "UInt64", "boolean"])
CORE_KINDS = ["bool", "int32", "int64", "uint64", "float64", "str_obj", "bytes_obj", "dt_ns", "dt_us_paris",
              "cat_str", "Int64", "boolean"]


def _ipool(bits, signed):
    if signed:
        return [0, 1, -1, 2 ** (bits - 1) - 1, -2 ** (bits - 1), 42, -7]
    return [0, 1, 2 ** bits - 1, 2 ** (bits - 1), 42, 7, 2 ** (bits - 1) - 1]


def pool(kind):
    import numpy as np
    inf = float("inf")
    if kind == "bool" or kind == "boolean":
        return [True, False, False, True, True, False, True]
    for k in NUMPY_INT:
        if kind == k or kind.lower() == k and kind[0] in "IU":
            bits = int("".join(c for c in k if c.isdigit()))
            return _ipool(bits, not k.startswith("u"))
    if kind == "float32":
        return [0.0, -0.0, 1.5, -2.25, inf, -inf, 3.4028234663852886e38]
    if kind == "float64":
        return [0.0, -0.0, 1.5, -2.25, inf, -inf, 1.7976931348623157e308, 5e-324]
    if kind in ("str_obj", "str_pd"):
        return ["", "a", "é中", "x" * 300, "a", "zz", " sp ace "]
    if kind == "bytes_obj":
        return [b"", b"a", b"\x00\xff\x00", b"y" * 300, b"a", b"zz", b"\xc3\x28"]
    if kind == "json_obj":
        return [{"a": 1}, [1, 2, 3], {"b": [1, {"c": None}]}, [], {"é": "中"}, [True, 1.5, "s"], {}]
    if kind.startswith("dt_"):
        # nanoseconds since epoch; all representable in the coarsest unit used (seconds)
        return [0, 1_600_000_000 * 10 ** 9, -86_400 * 10 ** 9, 4_102_444_800 * 10 ** 9, 1 * 10 ** 9,
                -2_208_988_800 * 10 ** 9, 951_782_400 * 10 ** 9]
    if kind.startswith("td_"):
        # microsecond-representable nanosecond counts
        return [0, 1000, -1000, 86_400 * 10 ** 9, 3_600 * 10 ** 9 + 1000, -5 * 10 ** 9, 999_999_000]
    if kind == "cat_str":
        return ["b", "a", "c", "a", "b", "é", "c"]
    if kind == "cat_str_ordered":
        return ["low", "high", "mid", "high", "low", "mid", "low"]
    if kind == "cat_int":
        return [10, -3, 7, 10, 7, -3, 0]
    if kind == "cat_unused":
        return ["u", "v", "u", "v", "u", "v", "u"]
    raise KeyError(kind)


def series(kind, n, nullpat="none", offset=0, name="c"):
    """pandas Series of n rows for the kind (values cyclic from offset, nulls per pattern)."""
    import numpy as np
    import pandas as pd
    p = pool(kind)
    vals = [p[(i + offset) % len(p)] for i in range(n)]
    mask = nullmask(nullpat, n)
    if nullpat != "none" and kind not in NULLABLE_KINDS:
        raise ValueError("kind %s cannot hold nulls" % kind)
    if kind == "bool" or kind in NUMPY_INT:
        return pd.Series(np.array(vals, dtype=kind), name=name)
    if kind in ("float32", "float64"):
        a = np.array(vals, dtype=kind)
        a[np.array(mask, dtype=bool)] = np.nan
        return pd.Series(a, name=name)
    if kind in ("str_obj", "bytes_obj", "json_obj"):
        return pd.Series([None if m else v for v, m in zip(vals, mask)], dtype=object, name=name)
    if kind == "str_pd":
        return pd.Series([None if m else v for v, m in zip(vals, mask)], dtype="str", name=name)
    if kind.startswith("dt_"):
        unit = {"dt_s": "s", "dt_ms": "ms", "dt_us": "us", "dt_ns": "ns", "dt_ns_utc": "ns",
                "dt_us_paris": "us", "dt_ns_offset": "ns"}[kind]
        a = np.array(vals, dtype="int64").view("M8[ns]").astype("M8[%s]" % unit)
        a[np.array(mask, dtype=bool)] = np.datetime64("NaT")
        s = pd.Series(a, name=name)
        if kind == "dt_ns_utc":
            s = s.dt.tz_localize("UTC")
        elif kind == "dt_us_paris":
            s = s.dt.tz_localize("UTC").dt.tz_convert("Europe/Paris")
        elif kind == "dt_ns_offset":
            import datetime
            s = s.dt.tz_localize("UTC").dt.tz_convert(datetime.timezone(datetime.timedelta(hours=2)))
        return s
    if kind.startswith("td_"):
        unit = "ns" if kind == "td_ns" else "us"
        a = np.array(vals, dtype="int64").view("m8[ns]").astype("m8[%s]" % unit)
        a[np.array(mask, dtype=bool)] = np.timedelta64("NaT")
        return pd.Series(a, name=name)
    if kind.startswith("cat_"):
        if kind == "cat_str":
            cats, ordered = ["a", "b", "c", "é"], False
        elif kind == "cat_str_ordered":
            cats, ordered = ["low", "mid", "high"], True      # category order != lexical order
        elif kind == "cat_int":
            cats, ordered = [10, -3, 7, 0], False
        else:
            cats, ordered = ["u", "unused1", "v", "unused2"], False
        c = pd.Categorical([None if m else v for v, m in zip(vals, mask)], categories=cats, ordered=ordered)
        return pd.Series(c, name=name)
    if kind in ("Int8", "Int16", "Int32", "Int64", "UInt8", "UInt16", "UInt32", "UInt64", "boolean"):
        return pd.Series([pd.NA if m else v for v, m in zip(vals, mask)], dtype=kind, name=name)
    raise KeyError(kind)


def patterns_for(kind):
    return NULLPATS if kind in NULLABLE_KINDS else ["none"]


N_QUICK = [0, 1, 2, 8, 9]
N_THOROUGH = [0, 1, 2, 7, 8, 9, 63, 64, 65]
N_BIG = [8191, 8192, 8193]
