"""Canonical forms and comparisons shared by the property drivers."""
import math


_UNIT_NS = {"s": 10 ** 9, "ms": 10 ** 6, "us": 10 ** 3, "ns": 1}


def canon_cell(x):
    """pandas cell -> canonical python value.
    None for NULL/NaN/NaT/NA (missingness); ("ts", ns) / ("td", ns) for times;
    float, int, bool, str, bytes otherwise; lists/dicts recursively."""
    import numpy as np
    import pandas as pd
    if x is None or x is pd.NA or x is pd.NaT:
        return None
    if isinstance(x, (bool, np.bool_)):
        return bool(x)
    if isinstance(x, pd.Timestamp):
        if pd.isna(x):
            return None
        # exact integer arithmetic: values far outside the ns range must not make the oracle raise
        return ("ts", int(x.asm8.view("i8")) * _UNIT_NS[x.unit])
    if isinstance(x, pd.Timedelta):
        if pd.isna(x):
            return None
        return ("td", int(x.asm8.view("i8")) * _UNIT_NS[x.unit])
    if isinstance(x, np.datetime64):
        if np.isnat(x):
            return None
        unit = np.datetime_data(x.dtype)[0]
        return ("ts", int(x.astype("int64")) * _UNIT_NS.get(unit, 1))
    if isinstance(x, np.timedelta64):
        if np.isnat(x):
            return None
        unit = np.datetime_data(x.dtype)[0]
        return ("td", int(x.astype("int64")) * _UNIT_NS.get(unit, 1))
    if isinstance(x, (int, np.integer)):
        return int(x)
    if isinstance(x, (float, np.floating)):
        x = float(x)
        if math.isnan(x):
            return None
        return x
    if isinstance(x, (bytes, np.bytes_)):
        return bytes(x)
    if isinstance(x, str):
        return str(x)
    if isinstance(x, (list, tuple, np.ndarray)):
        return [canon_cell(y) for y in x]
    if isinstance(x, dict):
        return {canon_cell(k) if not isinstance(k, (str, bytes, int)) else k: canon_cell(v) for k, v in x.items()}
    return x


def series_to_list(s):
    """pandas Series / Index -> list of canonical cells (categoricals by label)."""
    import pandas as pd
    if isinstance(s.dtype, pd.CategoricalDtype):
        s = s.astype(object)
    return [canon_cell(x) for x in s.tolist()] if not hasattr(s, "array") or True else None


def same_value(a, b, rel=0.0):
    if a is None or b is None:
        return a is None and b is None
    if isinstance(a, float) or isinstance(b, float):
        try:
            fa, fb = float(a), float(b)
        except (TypeError, ValueError):
            return False
        if isinstance(a, bool) or isinstance(b, bool):
            return False
        if fa == fb:
            return True
        if rel and math.isfinite(fa) and math.isfinite(fb):
            return abs(fa - fb) <= rel * max(abs(fa), abs(fb))
        return False
    if isinstance(a, bool) != isinstance(b, bool):
        return False
    if isinstance(a, list) and isinstance(b, list):
        return len(a) == len(b) and all(same_value(x, y, rel) for x, y in zip(a, b))
    if isinstance(a, dict) and isinstance(b, dict):
        return set(a) == set(b) and all(same_value(a[k], b[k], rel) for k in a)
    return type(a) == type(b) and a == b or (isinstance(a, int) and isinstance(b, int) and a == b)


def first_diff(got, exp, rel=0.0):
    """index of first differing cell or None"""
    if len(got) != len(exp):
        return -1
    for i, (g, e) in enumerate(zip(got, exp)):
        if not same_value(g, e, rel):
            return i
    return None


def dtype_kind(dt):
    """(kind, itemsize, unit/tz info, masked?) for a pandas/numpy dtype"""
    import numpy as np
    import pandas as pd
    from pandas.core.arrays.masked import BaseMaskedDtype
    if type(dt).__name__ == "NumpyEADtype":      # dtype of Series.array for plain numpy-backed columns
        dt = dt.numpy_dtype
    if isinstance(dt, pd.CategoricalDtype):
        return ("category", None, bool(dt.ordered), False)
    if isinstance(dt, BaseMaskedDtype):
        nd = dt.numpy_dtype
        return (nd.kind, nd.itemsize, None, True)
    if isinstance(dt, pd.DatetimeTZDtype):
        return ("M", 8, (dt.unit, str(dt.tz)), False)
    if isinstance(dt, pd.StringDtype) or str(dt) in ("str", "string"):
        return ("O", None, "str", False)
    nd = np.dtype(dt)
    if nd.kind in "Mm":
        return (nd.kind, 8, (np.datetime_data(nd)[0], None), False)
    if nd.kind == "O":
        return ("O", None, None, False)
    return (nd.kind, nd.itemsize, None, False)
