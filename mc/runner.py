"""Check runner: builds the overlay, drives a property module's exploration
through the pool, classifies violations against known_findings.json, writes
evidence and replay files, prints VIOLATION / KNOWN-FINDING lines.

Property module interface (mc/props/Cxx.py):
  ID, LEVEL ("exploration"|"model_checking"|"fault_enumeration"), FLAVOUR
  RULE (str), ASSUMPTIONS (list of str)
  explore(run, tier)        -- calls run.lattice(...) / run.dynamic(...)
  [crash_sig(point, res)]   -- signature for a worker crash / timeout
Worker-side functions take a point (JSON-able dict) and return a dict:
  ok (bool), outcome (str), nontrivial (bool), [sig (dict)], [detail (str)],
  [counts (dict name->int)], [children (list of points)] ...
"""
import hashlib
import importlib
import json
import os
import random
import sys
import time

from . import VERIF, REPO
from . import build
from .pool import Pool

KNOWN = os.path.join(VERIF, "known_findings.json")
MAX_REPLAYS = 40


def _h(obj):
    return hashlib.blake2b(repr(obj).encode(), digest_size=8).digest()


def sig_key(sig):
    return json.dumps(sig, sort_keys=True, default=str)


def _match_value(pat, val):
    if isinstance(pat, dict):
        try:
            if "ge" in pat and not (val >= pat["ge"]):
                return False
            if "le" in pat and not (val <= pat["le"]):
                return False
            if "in" in pat and val not in pat["in"]:
                return False
            if "contains" in pat and pat["contains"] not in str(val):
                return False
            return True
        except TypeError:
            return False
    if isinstance(pat, list):
        return val in pat
    return pat == val


def match_known(prop, sig):
    """Return the known-findings entry (status 'known') matching this signature."""
    try:
        entries = json.load(open(KNOWN))["findings"]
    except FileNotFoundError:
        return None
    for e in entries:
        if e.get("property") != prop or e.get("status") != "known":
            continue
        m = e["match"]
        if all(k in sig and _match_value(v, sig[k]) for k, v in m.items()):
            return e
    return None


class Run:
    def __init__(self, mod, tier, seed, env):
        self.mod = mod
        self.tier = tier
        self.seed = seed
        self.env = env
        self.pool = None
        self.evaluations = 0
        self.nontrivial = set()
        self.outcomes = {}
        self.counts = {}
        self.samples = []
        self.violations = {}      # sig_key -> dict(sig, point, fn, res, n, order)
        self.spaces = []          # (name, size, exhaustive)
        self.capped = False
        self.deadline = None
        self.t0 = time.time()
        self.extra = {}
        self.notes = []
        self.extra_crashes = 0

    # ----------------------------------------------------------------
    def _pool(self):
        if self.pool is None:
            self.pool = Pool(self.env, timeout=float(os.environ.get(
                "VERIF_POINT_TIMEOUT", getattr(self.mod, "TIMEOUT", 180))))
        return self.pool

    def record(self, fn, point, res, order=0, space="", modname=None):
        self.evaluations += 1
        oc = res.get("outcome", "?")
        self.outcomes[oc] = self.outcomes.get(oc, 0) + 1
        for k, v in (res.get("counts") or {}).items():
            self.counts[k] = self.counts.get(k, 0) + v
        if res.get("nontrivial"):
            self.nontrivial.add(_h((fn, point)))
        if len(self.samples) < 4 or (self.evaluations % 9973 == 0 and len(self.samples) < 12):
            self.samples.append({"space": space, "point": point, "outcome": oc,
                                 "detail": str(res.get("detail", ""))[:300]})
        if not res.get("ok"):
            if oc in ("crash", "timeout"):
                cs = getattr(self.mod, "crash_sig", None)
                sig = cs(point, res) if cs else {"symptom": oc}
            elif oc == "harness_error":
                sig = {"symptom": "harness_error", "space": space,
                       "error": str(res.get("detail", ""))[:120]}
            else:
                sig = res.get("sig") or {"symptom": oc}
            for s in (sig if isinstance(sig, list) else [sig]):
                k = sig_key(s)
                v = self.violations.get(k)
                if v is None:
                    self.violations[k] = {"sig": s, "point": point, "fn": fn,
                                          "res": res, "n": 1, "order": order,
                                          "mod": modname or self.mod.__name__}
                else:
                    v["n"] += 1
                    if order < v["order"]:
                        v.update(point=point, res=res, order=order, fn=fn)

    def lattice(self, name, points, fn, exhaustive=True, mod=None):
        """Execute fn on every point of a finite list (the whole product)."""
        mod = mod or self.mod.__name__
        pool = self._pool()
        order = list(range(len(points)))
        random.Random(self.seed).shuffle(order)   # seed only permutes dispatch order
        for i in order:
            pool.submit(mod, fn, points[i], tag=(i, name))
        results = [None] * len(points)

        def on_result(task, res):
            i, nm = task[4]
            results[i] = res
            self.record(task[2], task[3], res, order=i, space=nm, modname=task[1])
        pool.run(on_result)
        self.spaces.append({"space": name, "points": len(points), "exhaustive": bool(exhaustive)})
        return results

    def dynamic(self, name, initial, fn, on_result, mod=None):
        """Work list that grows: on_result(point, res, submit) may submit more."""
        mod = mod or self.mod.__name__
        pool = self._pool()
        n = [0]

        def submit(p):
            pool.submit(mod, fn, p, tag=(n[0], name))
            n[0] += 1
        for p in initial:
            submit(p)

        def cb(task, res):
            self.record(task[2], task[3], res, order=task[4][0], space=name, modname=task[1])
            on_result(task[3], res, submit)
        pool.run(cb)
        self.spaces.append({"space": name, "points": n[0], "exhaustive": True})

    def out_of_time(self):
        return self.deadline is not None and time.time() > self.deadline

    def close(self):
        if self.pool:
            self.extra_crashes = self.pool.crashes
            self.pool.close()
            self.pool = None


def write_replay(prop, v):
    d = os.path.join(VERIF, "replays", prop)
    os.makedirs(d, exist_ok=True)
    body = {"property": prop, "module": v.get("mod") or ("mc.props." + prop), "fn": v["fn"],
            "point": v["point"], "signature": v["sig"],
            "observed": {k: (val if isinstance(val, (int, float, bool, str, type(None), list, dict)) else str(val))
                         for k, val in v["res"].items() if k not in ("children",)}}
    txt = json.dumps(body, indent=1, default=str, sort_keys=True)
    name = hashlib.sha256(sig_key(v["sig"]).encode()).hexdigest()[:16] + ".json"
    path = os.path.join(d, name)
    with open(path, "w") as f:
        f.write(txt)
    return path


def main(prop, tier="quick", replay=None):
    seed = int(os.environ.get("VERIF_SEED", "0") or 0)
    tier = os.environ.get("VERIF_TIER", tier) if tier is None else tier
    mod = importlib.import_module("mc.props." + prop)
    flavour = getattr(mod, "FLAVOUR", "plain")
    t0 = time.time()
    top, env, notes = build.overlay(flavour)
    for n in notes:
        print(n)
    try:
        if replay:
            return do_replay(mod, replay, env)
        run = Run(mod, tier, seed, env)
        budget = os.environ.get("VERIF_BUDGET_S")
        if budget:
            run.deadline = t0 + float(budget)
        try:
            mod.explore(run, tier)
        finally:
            run.close()
        return finish(mod, run, tier, seed, t0, env)
    finally:
        build.cleanup(top)


def do_replay(mod, path, env):
    import subprocess
    from . import PY
    body = json.load(open(path))
    code = ("import json,sys,importlib;b=json.load(open(sys.argv[1]));"
            "m=importlib.import_module(b['module']);r=getattr(m,b['fn'])(b['point']);"
            "print(json.dumps({k:v for k,v in r.items() if k!='children'},indent=1,default=str));"
            "sys.exit(0 if r.get('ok') else 1)")
    r = subprocess.run([PY, "-c", code, path], env=env, cwd=VERIF)
    print("replay signature:", json.dumps(body.get("signature")))
    if r.returncode not in (0, 1):
        print("replay: process died with status", r.returncode)
        return 1
    return r.returncode


def recheck(mod, run, v, env):
    """Re-execute one violating point in a fresh worker (determinism, rule 5)."""
    pool = Pool(env, nworkers=1, timeout=300)
    out = {}
    pool.submit(v.get("mod") or mod.__name__, v["fn"], v["point"], tag=(0, "recheck"))

    def cb(task, res):
        out["res"] = res
    pool.run(cb)
    pool.close()
    return out.get("res", {"ok": False, "outcome": "crash"})


def finish(mod, run, tier, seed, t0, env):
    prop = mod.ID
    unmatched, known_hits = [], {}
    for k, v in sorted(run.violations.items(), key=lambda kv: kv[1]["order"]):
        e = match_known(prop, v["sig"])
        if e is not None:
            known_hits.setdefault(e["id"], (e, []))[1].append(v)
        else:
            unmatched.append(v)
    dump = os.environ.get("VERIF_DUMP_SIGS")
    if dump:
        with open(dump, "w") as f:
            json.dump([{"sig": v["sig"], "n": v["n"], "detail": str(v["res"].get("detail", ""))[:300],
                        "known": bool(match_known(prop, v["sig"]))} for v in run.violations.values()],
                      f, default=str)
    lines = []
    rc = 0
    for eid, (e, vs) in sorted(known_hits.items()):
        lines.append("KNOWN-FINDING: property=%s %s [%s; %d point(s), %d signature(s)]" % (
            prop, e["what"], eid, sum(v["n"] for v in vs), len(vs)))
    flaky = 0
    reported = 0
    for v in unmatched:
        if reported >= MAX_REPLAYS:
            break
        if reported < 6 and getattr(mod, "RECHECK", True):
            r2 = recheck(mod, run, v, env)
            if r2.get("ok"):
                flaky += 1
                lines.append("NOTE: non-reproducible failure (harness nondeterminism?) sig=%s" % sig_key(v["sig"]))
                continue
        path = write_replay(prop, v)
        lines.append("VIOLATION property=%s replay=%s" % (prop, path))
        lines.append("  signature=%s points=%d detail=%s" % (
            sig_key(v["sig"]), v["n"], str(v["res"].get("detail", ""))[:400].replace("\n", " | ")))
        reported += 1
        rc = 1
    if len(unmatched) > reported + flaky:
        lines.append("  ... and %d more distinct violation signatures (not written as replay files)" % (
            len(unmatched) - reported - flaky))
    if flaky and rc == 0:
        rc = 3
    wall = time.time() - t0
    exhaustive = (not run.capped) and all(s["exhaustive"] for s in run.spaces)
    cov = {
        "evaluations": run.evaluations,
        "distinct_nontrivial": len(run.nontrivial),
        "rule": mod.RULE,
        "samples": run.samples[:12],
        "exhaustive": bool(exhaustive),
        "spaces": run.spaces,
        "outcomes": run.outcomes,
        "counts": run.counts,
        "capped": run.capped,
        "worker_crashes_contained": run.extra_crashes,
        "known_findings_seen": sorted(known_hits),
        "distinct_violation_signatures": len(run.violations),
        "unmatched_violation_signatures": len(unmatched),
    }
    cov.update(run.extra)
    if mod.LEVEL == "model_checking":
        cov.setdefault("states", run.counts.get("states", 0) or run.extra.get("states", 0))
        cov.setdefault("transitions", run.counts.get("transitions", 0) or run.extra.get("transitions", 0))
        cov.setdefault("traces_validated_against_impl", cov["transitions"])
    ev = {
        "property_id": prop, "tier": tier, "seed": seed, "level": mod.LEVEL,
        "coverage": cov, "assumptions": list(mod.ASSUMPTIONS),
        "wall_s": round(wall, 2), "violations": len(unmatched),
        "repo": REPO,
    }
    os.makedirs(os.path.join(VERIF, "evidence"), exist_ok=True)
    with open(os.path.join(VERIF, "evidence", prop + ".json"), "w") as f:
        json.dump(ev, f, indent=1, default=str)
    for n in run.notes:
        print(n)
    print("%s tier=%s seed=%d evaluations=%d nontrivial=%d spaces=%d exhaustive=%s outcomes=%s wall=%.1fs" % (
        prop, tier, seed, run.evaluations, len(run.nontrivial), len(run.spaces),
        exhaustive, json.dumps(run.outcomes, sort_keys=True), wall))
    for l in lines:
        print(l)
    return rc
