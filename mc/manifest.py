"""Regenerate /verif/MANIFEST.json from the property modules that exist."""
import importlib
import json
import os

from . import VERIF

ALL = ["C%02d" % i for i in range(1, 21)]

NA_REASON = "check not built yet in this session (see DESIGN.md section 4 for the planned bounded-exhaustive explorer)"


def main():
    checks, na = [], []
    for pid in ALL:
        path = os.path.join(VERIF, "mc", "props", pid + ".py")
        if not os.path.exists(path):
            na.append({"property_id": pid, "reason": NA_REASON})
            continue
        m = importlib.import_module("mc.props." + pid)
        if getattr(m, "WITHDRAWN", None):
            na.append({"property_id": pid, "reason": m.WITHDRAWN})
            continue
        checks.append({
            "property_id": pid,
            "quick_cmd": "./check %s --tier quick" % pid,
            "thorough_cmd": "./check %s --tier thorough" % pid,
            "evidence_file": "/verif/evidence/%s.json" % pid,
            "replay_cmd_template": "./check %s --replay {path}" % pid,
            "engine": "mc",
            "level_claimed": {"category": m.LEVEL, "text": m.LEVEL_TEXT,
                              "design_ref": "DESIGN.md section 4, " + pid},
            "level_note": m.LEVEL_NOTE,
            "technique": m.TECHNIQUE,
        })
    man = {
        "version": 1,
        "setup_cmd": "/venv/bin/python -m mc.build && /venv/bin/python -m mc.specpq.selftest",
        "hooks": {
            "guard": "FASTPARQUET_VERIF",
            "enable": "no source hooks are needed: checks drive public parameters (open_with/mkdirs, "
                      "writer.MAX_PAGE_SIZE/DATAPAGE_VERSION), sys.settrace and process isolation; "
                      "the extension modules are compiled from the working tree's cencoding.c/speedups.c "
                      "into an overlay (mc/build.py)",
            "baseline_off_cmd": "cd /repo && /venv/bin/python -m pytest -ra -q -p no:cacheprovider "
                                "--timeout=900 --continue-on-collection-errors",
            "source_commits": [],
            "add_only": True,
        },
        "engines": [{
            "name": "mc", "path": "/verif/mc",
            "serves_properties": [c["property_id"] for c in checks],
            "kind_free_text": "hand-written bounded exhaustive explorers (lattice L, history BFS H, fault "
                              "points F, preemption-bounded thread schedules S) executing the real "
                              "fastparquet code from an overlay of the working tree, with specpq (an "
                              "independent spec-level Parquet/Thrift codec driven by the IDL) as reference model",
        }],
        "checks": checks,
        "not_applicable": na,
        "notes": "Every check enumerates a stated finite space completely (no sampling); VERIF_SEED only "
                 "permutes dispatch order. known_findings.json lists recorded genuine defects.",
    }
    with open(os.path.join(VERIF, "MANIFEST.json"), "w") as f:
        json.dump(man, f, indent=1)
    print("checks:", [c["property_id"] for c in checks])
    print("not_applicable:", [c["property_id"] for c in na])


if __name__ == "__main__":
    main()
