"""Worker process: executes (module, function, point) tasks sent by mc.pool."""
import importlib
import os
import shutil
import sys
import traceback
import warnings

from .pool import _send, _recv


def run_task(mod, fn, point):
    try:
        m = importlib.import_module(mod)
        res = getattr(m, fn)(point)
        if not isinstance(res, dict):
            res = {"ok": False, "outcome": "harness_error", "detail": "non-dict result"}
        return res
    except MemoryError:
        return {"ok": False, "outcome": "harness_error", "detail": "MemoryError"}
    except BaseException as e:  # harness bug, not a property verdict
        return {"ok": False, "outcome": "harness_error",
                "detail": "%s: %s" % (type(e).__name__, e),
                "trace": traceback.format_exc()[-3000:]}


def main():
    warnings.simplefilter("ignore")
    frm = os.fdopen(int(os.environ["VERIF_TASK_FD"]), "rb")
    to = os.fdopen(int(os.environ["VERIF_RES_FD"]), "wb")
    from .build import assert_overlay
    assert_overlay()
    while True:
        batch = _recv(frm)
        if batch is None:
            break
        for (tid, mod, fn, point, tag) in batch:
            res = run_task(mod, fn, point)
            _send(to, (tid, res))


if __name__ == "__main__":
    main()
