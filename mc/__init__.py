"""Bounded exhaustive exploration (model checking) machinery for fastparquet.

See /verif/DESIGN.md.  Nothing in this package imports fastparquet at import
time: the library under test is only imported inside worker processes, from an
overlay of /repo's current working tree built by mc.build.
"""
import os

VERIF = os.path.dirname(os.path.dirname(os.path.abspath(__file__)))
REPO = os.environ.get("VERIF_REPO", "/repo")
PY = "/venv/bin/python"
