"""Shared worker-side helpers for the write-based properties (C01 C02 C04 C17)."""
import os


class PageCfg:
    """context manager setting writer.DATAPAGE_VERSION / MAX_PAGE_SIZE (module globals read at call time)"""

    def __init__(self, version=1, page_size=None):
        self.version = version
        self.page_size = page_size

    def __enter__(self):
        from fastparquet import writer
        self.old = (writer.DATAPAGE_VERSION, writer.MAX_PAGE_SIZE)
        writer.DATAPAGE_VERSION = self.version
        if self.page_size:
            writer.MAX_PAGE_SIZE = self.page_size
        return self

    def __exit__(self, *a):
        from fastparquet import writer
        writer.DATAPAGE_VERSION, writer.MAX_PAGE_SIZE = self.old


def tiny_page_size(df, rows_per_page=3):
    """a MAX_PAGE_SIZE value that gives about rows_per_page rows per page for the widest column"""
    import pandas as pd
    best = 0.0
    for c in df.columns:
        s = df[c]
        dt = s.dtype
        if isinstance(dt, pd.CategoricalDtype):
            bpe = s.cat.codes.dtype.itemsize
        elif str(dt) in ("bool", "boolean"):
            bpe = 0.125
        elif str(dt).lower() in ("int64", "uint64") or dt.kind in "Mm":
            bpe = 8
        elif str(dt).lower() in ("int8", "int16", "int32", "uint8", "uint16", "uint32"):
            bpe = 4
        elif dt.kind == "f":
            bpe = dt.itemsize
        elif dt.kind == "O" or "str" in str(dt):
            nn = s.iloc[:1000]
            nn = nn[nn.notnull()]
            try:
                ln = nn.str.len()
                bpe = ln.sum() / (len(ln) or 4) + 4
            except AttributeError:
                bpe = 16
        else:
            bpe = getattr(dt, "itemsize", 8)
        best = max(best, bpe)
    return max(1, int(rows_per_page * (best + 0.125) + 1))


def canon_frame(df):
    """{col: list of canonical cells}"""
    from mc import oracles as O
    return {str(c): O.series_to_list(df[c]) for c in df.columns}


def dtype_ok(orig, got, kind):
    """is `got` the original dtype or its documented canonical form?  returns '' or a reason"""
    import numpy as np
    import pandas as pd
    from mc import oracles as O
    o, g = O.dtype_kind(orig), O.dtype_kind(got)
    if kind in ("str_obj", "str_pd", "bytes_obj", "json_obj"):
        return "" if g[0] == "O" else "text/bytes/json must come back as object, got %s" % got
    if kind.startswith("cat_"):
        if g[0] != "category":
            return "categorical came back as %s" % got
        return ""
    if kind.startswith("td_"):
        return "" if g[0] == "m" else "timedelta came back as %s" % got
    if kind.startswith("dt_"):
        if g[0] != "M":
            return "datetime came back as %s" % got
        ou, gu = o[2], g[2]
        if ou[0] != gu[0]:
            return "datetime unit %s came back as %s" % (ou[0], gu[0])
        if (ou[1] is None) != (gu[1] is None):
            return "time zone %s came back as %s" % (ou[1], gu[1])
        return ""
    if o[3]:   # nullable extension input
        if g[3] and (g[0], g[1]) == (o[0], o[1]):
            return ""
        return "nullable %s came back as %s" % (orig, got)
    if (g[0], g[1]) == (o[0], o[1]) and not g[3]:
        return ""
    return "dtype %s came back as %s" % (orig, got)


def cat_ok(orig, got):
    """categorical labels, order flag and codes preserved"""
    import pandas as pd
    if not isinstance(got.dtype, pd.CategoricalDtype):
        return "not categorical"
    oc, gc = list(orig.cat.categories), list(got.cat.categories)
    if [str(x) for x in oc] != [str(x) for x in gc] or oc != gc:
        return "categories %r came back as %r" % (oc, gc)
    if bool(orig.cat.ordered) != bool(got.cat.ordered):
        return "ordered flag %r came back as %r" % (orig.cat.ordered, got.cat.ordered)
    if list(orig.cat.codes) != list(got.cat.codes):
        return "codes %r came back as %r" % (list(orig.cat.codes)[:10], list(got.cat.codes)[:10])
    return ""


def listing(path):
    out = []
    if os.path.isfile(path):
        return [path]
    for root, dirs, files in os.walk(path):
        for f in sorted(files):
            out.append(os.path.join(root, f))
    return sorted(out)
