#!/usr/bin/env python3
"""Run the repository's pinned test suite in DIR (default /repo) and compare with BASELINE.json.
usage: tools/baseline.py [DIR]   -> exit 0 iff every stable_pass test passed"""
import json, subprocess, sys, tempfile, os
import xml.etree.ElementTree as ET
d = sys.argv[1] if len(sys.argv) > 1 else "/repo"
base = json.load(open("/root/.vp/BASELINE.json"))
xml = tempfile.mktemp(suffix=".xml", dir="/dev/shm")
subprocess.run(["/venv/bin/python", "-m", "pytest", "-q", "-p", "no:cacheprovider", "--timeout=900",
                "--continue-on-collection-errors", "--junitxml=" + xml], cwd=d,
               stdout=subprocess.DEVNULL, stderr=subprocess.DEVNULL)
passed = set()
for tc in ET.parse(xml).getroot().iter("testcase"):
    if not any(c.tag in ("failure", "error", "skipped") for c in tc):
        passed.add(tc.get("classname") + "::" + tc.get("name"))
os.unlink(xml)
missing = [t for t in base["stable_pass"] if t not in passed]
print("passed %d, stable_pass %d, missing %d" % (len(passed), len(base["stable_pass"]), len(missing)))
for m in missing[:20]:
    print("  MISSING", m)
sys.exit(1 if missing else 0)
