#!/bin/bash
# usage: tools/confirm_seeded.sh C16  -- confirm a seeded change in a scratch worktree: demo passes without,
# fails with, and the pinned test-suite still passes with it.  Writes /verif/seeded/<id>/confirm.txt
id=$1; d=/verif/seeded/$id; wt=/tmp/confirm-$id-$$
git -C /repo worktree add -q --detach $wt HEAD || exit 2
cp /repo/fastparquet/*.so /repo/fastparquet/*.c /repo/fastparquet/_version.py $wt/fastparquet/
demo=$(ls $d/demo_*.py | head -1); cp $demo $wt/
( cd $wt && timeout 600 /venv/bin/python $(basename $demo) > /tmp/confirm-$id-a.log 2>&1 ); a=$?
git -C $wt apply $d/patch.diff; ap=$?
( cd $wt && timeout 600 /venv/bin/python $(basename $demo) > /tmp/confirm-$id-b.log 2>&1 ); b=$?
base=$(python3 /verif/tools/baseline.py $wt | head -1)
git -C /repo worktree remove --force $wt; git -C /repo worktree prune
echo "id=$id repo_head=$(git -C /repo rev-parse --short HEAD) demo_without_patch_exit=$a apply_exit=$ap demo_with_patch_exit=$b baseline_with_patch: $base" | tee $d/confirm.txt
