#!/usr/bin/env python3
"""usage: tools/record_fixes.py <property-id> <n>   -- record the last n commits of /repo (must start with "fix:") as
'fixed' entries in /verif/known_findings.json"""
import json, re, subprocess, sys
pid, n = sys.argv[1], int(sys.argv[2])
log = subprocess.check_output(["git", "-C", "/repo", "log", "-%d" % n, "--format=%h%x09%s"], text=True).strip().splitlines()
k = json.load(open("/verif/known_findings.json"))
ids = {e["id"] for e in k["findings"]}
for line in reversed(log):
    h, subj = line.split("\t", 1)
    assert subj.startswith("fix:"), subj
    what = subj[4:].strip()
    slug = re.sub(r"[^a-z0-9]+", "-", what.lower())[:48].strip("-")
    fid = "FX-%s-%s" % (pid, slug)
    if fid in ids or any(e.get("commit") == h for e in k["findings"]):
        continue
    k["findings"].append({"id": fid, "property": pid, "status": "fixed", "commit": h,
                          "what": "fixed: property=%s %s %s" % (pid, h, what)})
    print("recorded", fid)
json.dump(k, open("/verif/known_findings.json", "w"), indent=1, ensure_ascii=False)
