#!/bin/bash
# usage: tools/try_seeded.sh <seeded-id-dir> <check-id> [tier]   -- apply a seeded patch to /repo, run a check, undo
set -u
d=/verif/seeded/$1; c=$2; tier=${3:-quick}
git -C /repo diff --quiet || { echo "/repo has uncommitted changes"; exit 2; }
git -C /repo apply $d/patch.diff || exit 2
( cd /verif && ./check $c --tier $tier > /tmp/seeded-$1-$c.log 2>&1; echo "exit=$?" >> /tmp/seeded-$1-$c.log )
git -C /repo checkout -- . 
grep -c "^VIOLATION" /tmp/seeded-$1-$c.log; grep -m3 -A1 "^VIOLATION" /tmp/seeded-$1-$c.log | cut -c1-400; tail -1 /tmp/seeded-$1-$c.log
# restore the evidence of the unchanged tree
