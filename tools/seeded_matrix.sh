#!/bin/bash
# run every seeded change against its property's quick check; print one line each (apply status, violations)
cd /verif
for d in seeded/*/; do
  s=$(basename $d); c=${s:0:3}
  if grep -q NEUTRALISED $d/meta.json 2>/dev/null; then echo "$s neutralised (see meta.json)"; continue; fi
  if [ -f $d/patch_c.diff ]; then cf=$(head -1 $d/patch_c.diff | sed 's#.*/\([a-z]*\)\.c.*#\1#'); r=$(tools/try_seeded_c.sh $s $c quick $cf 2>&1 | head -1)
  else r=$(tools/try_seeded.sh $s $c 2>&1 | head -1); fi
  echo "$s $r"
done
git checkout -- evidence 2>/dev/null
