#!/usr/bin/env python3
"""usage: tools/write_meta.py <seeded-dir-id> <property> <change> <needs_to_manifest> <detected_by>
writes /verif/seeded/<id>/meta.json from confirm.txt (produced by tools/confirm_seeded*.sh)"""
import json, os, sys
sid, prop, change, needs, det = sys.argv[1:6]
d = "/verif/seeded/" + sid
conf = open(d + "/confirm.txt").read().strip()
clevel = os.path.exists(d + "/patch_c.diff")
meta = {
    "property": prop, "change": change, "needs_to_manifest": needs, "detected_by": det,
    "origin": "independent sub-agent given only the property text and a scratch worktree (second and third waves: asked for a change "
              "different from the earlier ones)" if sid[-1] in "bcdefgh" else
              "independent sub-agent given only the property text and a scratch worktree",
    "confirmed": conf,
    "how_confirmed": ("tools/confirm_seeded_c.sh" if clevel else "tools/confirm_seeded.sh") +
                     " (scratch worktree of /repo HEAD: demo exits 0 without the change, non-zero with it; tools/baseline.py "
                     "reports the 339 pinned tests still passing with it); detection: tools/try_seeded.sh %s %s" % (sid, prop),
    "files": sorted(f for f in os.listdir(d) if f != "meta.json"),
}
json.dump(meta, open(d + "/meta.json", "w"), indent=1)
print("wrote", d + "/meta.json")
