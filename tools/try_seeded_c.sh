#!/bin/bash
# usage: tools/try_seeded_c.sh <seeded-id-dir> <check-id> [tier] [cfile]  -- patch the (untracked) generated C in /repo,
# run a check (the overlay build compiles the extension from that file), restore the file
set -u
d=/verif/seeded/$1; c=$2; tier=${3:-quick}; cfile=${4:-cencoding}
cp /repo/fastparquet/$cfile.c /tmp/$cfile.c.orig-$$
patch -s /repo/fastparquet/$cfile.c < $d/patch_c.diff || { cp /tmp/$cfile.c.orig-$$ /repo/fastparquet/$cfile.c; exit 2; }
( cd /verif && ./check $c --tier $tier > /tmp/seeded-$1-$c.log 2>&1; echo "exit=$?" >> /tmp/seeded-$1-$c.log )
cp /tmp/$cfile.c.orig-$$ /repo/fastparquet/$cfile.c; rm -f /tmp/$cfile.c.orig-$$ /repo/fastparquet/$cfile.c.orig
grep -c "^VIOLATION" /tmp/seeded-$1-$c.log; grep -m3 -A1 "^VIOLATION" /tmp/seeded-$1-$c.log | cut -c1-400; tail -1 /tmp/seeded-$1-$c.log
