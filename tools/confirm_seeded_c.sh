#!/bin/bash
# like confirm_seeded.sh, for a change to the generated C (patch_c.diff against fastparquet/<name>.c): rebuilds the extension in the scratch worktree
id=$1; cfile=${2:-cencoding}; d=/verif/seeded/$id; wt=/tmp/confirm-$id-$$
git -C /repo worktree add -q --detach $wt HEAD || exit 2
cp /repo/fastparquet/*.so /repo/fastparquet/*.c /repo/fastparquet/_version.py $wt/fastparquet/
build() { ( cd $wt/fastparquet && gcc -O2 -shared -fPIC -fwrapv -fno-strict-aliasing -w -I$(/venv/bin/python -c "import numpy;print(numpy.get_include())") -I/root/.pyenv/versions/3.12.1/include/python3.12 $cfile.c -o $cfile.cpython-312-x86_64-linux-gnu.so ); }
build
demo=$(ls $d/demo_*.py | head -1); cp $demo $wt/
( cd $wt && timeout 600 /venv/bin/python $(basename $demo) > /tmp/confirm-$id-a.log 2>&1 ); a=$?
patch -s $wt/fastparquet/$cfile.c < $d/patch_c.diff; ap=$?
build
( cd $wt && timeout 600 /venv/bin/python $(basename $demo) > /tmp/confirm-$id-b.log 2>&1 ); b=$?
base=$(python3 /verif/tools/baseline.py $wt | head -1)
git -C /repo worktree remove --force $wt; git -C /repo worktree prune
echo "id=$id repo_head=$(git -C /repo rev-parse --short HEAD) demo_without_patch_exit=$a apply_exit=$ap demo_with_patch_exit=$b baseline_with_patch: $base" | tee $d/confirm.txt
