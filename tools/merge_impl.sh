#!/bin/bash
# usage: tools/merge_impl.sh <ID> [--no-fixes]
# merge an implementer's deliverables (/tmp/impl-out/<ID>/): check changes, known-finding entries, proposed repairs
set -u
id=$1; out=/tmp/impl-out/$id; wt=/tmp/impl-$id-verif
cd /verif
git diff --quiet || { echo "/verif has uncommitted changes"; exit 2; }
git -C /repo diff --quiet || { echo "/repo has uncommitted changes"; exit 2; }
[ -f $out/verif.diff ] || git -C $wt diff > $out/verif.diff
echo "== applying verif.diff (without known_findings.json)"
git apply --3way --exclude=known_findings.json --exclude='evidence/*' --exclude='replays/*' $out/verif.diff || { echo "APPLY FAILED"; exit 3; }
echo "== merging known findings"
python3 - "$id" <<'PY'
import json, sys
mine = json.load(open("/verif/known_findings.json"))
theirs = json.load(open("/tmp/impl-%s-verif/known_findings.json" % sys.argv[1]))
base = json.loads(__import__("subprocess").check_output(["git", "-C", "/tmp/impl-%s-verif" % sys.argv[1], "show", "HEAD:known_findings.json"]))
bid = {e["id"]: e for e in base["findings"]}
mid = {e["id"]: i for i, e in enumerate(mine["findings"])}
for e in theirs["findings"]:
    if e["id"] not in bid:
        if e["id"] in mid:
            print("  id clash, replacing", e["id"]); mine["findings"][mid[e["id"]]] = e
        else:
            print("  new", e["id"], e["status"]); mine["findings"].append(e)
    elif e != bid[e["id"]]:
        print("  changed", e["id"]); mine["findings"][mid[e["id"]]] = e
removed = set(bid) - {e["id"] for e in theirs["findings"]}
for r in removed:
    print("  REMOVED by implementer (not applied automatically):", r)
json.dump(mine, open("/verif/known_findings.json", "w"), indent=1, ensure_ascii=False)
PY
if [ "${2:-}" != "--no-fixes" ]; then
  for f in $(ls $out/fix-*.diff 2>/dev/null | sort -V); do
    n=${f%.diff}
    echo "== repair $f"
    git -C /repo apply --3way $f || { echo "FIX APPLY FAILED $f"; git -C /repo reset -q --hard HEAD; continue; }
    b=$(python3 tools/baseline.py /repo | head -1); echo "   baseline: $b"
    case "$b" in *"missing 0"*) git -C /repo add -u fastparquet; git -C /repo commit -q -F $n.msg; echo "   committed $(git -C /repo log --oneline | head -1)";;
      *) echo "   BASELINE BROKEN - reverted"; git -C /repo reset -q --hard HEAD;; esac
  done
fi
echo "== quick check"
./check $id --tier quick > /tmp/merge-$id.log 2>&1; echo "exit=$? $(grep -c '^VIOLATION' /tmp/merge-$id.log) violations, $(grep -c '^KNOWN-FINDING' /tmp/merge-$id.log) known; $(grep "^$id tier" /tmp/merge-$id.log | sed 's/.*evaluations=/evaluations=/' | cut -c1-150)"
echo "== seeded"
for s in $id ${id}b ${id}c; do
  if [ -f seeded/$s/patch_c.diff ]; then cf=$(head -1 seeded/$s/patch_c.diff | sed 's#.*/\([a-z]*\)\.c.*#\1#'); r=$(tools/try_seeded_c.sh $s $id quick $cf | head -1); else r=$(tools/try_seeded.sh $s $id | head -1); fi
  echo "  $s: $r violation(s)"
done
git status --short | head
