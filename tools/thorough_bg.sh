#!/bin/bash
# run inside `vp run --with-repo`: thorough tier of the given checks against the snapshot of /repo's HEAD
# (isolated from edits to /repo made while it runs)
cp /repo/fastparquet/*.c "$VP_RUN_REPO/fastparquet/" 2>/dev/null
cp /repo/fastparquet/_version.py "$VP_RUN_REPO/fastparquet/" 2>/dev/null
export VERIF_REPO="$VP_RUN_REPO"
for c in "$@"; do
  VERIF_DUMP_SIGS=/tmp/thorough-$c.json ./check $c --tier thorough > /tmp/thorough-$c.log 2>&1
  echo "$c exit=$? $(grep "^$c tier" /tmp/thorough-$c.log | cut -c1-300)"
done
