#!/bin/bash
# run every quick check once; print exit status, wall time and VIOLATION count
tier=${1:-quick}
for i in $(seq -w 1 20); do
  c=C$i; s=$(date +%s)
  ./check $c --tier $tier > /tmp/runall-$c.log 2>&1; rc=$?
  e=$(( $(date +%s) - s ))
  echo "$c rc=$rc ${e}s violations=$(grep -c '^VIOLATION' /tmp/runall-$c.log) known=$(grep -c '^KNOWN-FINDING' /tmp/runall-$c.log) $(grep "^$c tier" /tmp/runall-$c.log | sed 's/.*evaluations=/evaluations=/' | cut -c1-60)"
done
