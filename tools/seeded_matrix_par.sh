#!/bin/bash
# usage: tools/seeded_matrix_par.sh [lanes] [property ids...]  -- tools/seeded_lane.sh for the given (default: all)
# properties, <lanes> (default 4) at a time; the evidence of the unchanged tree is restored afterwards
cd /verif
lanes=${1:-4}; shift
ids=${@:-C01 C02 C03 C04 C05 C06 C07 C08 C09 C10 C11 C12 C13 C14 C15 C16 C17 C18 C19 C20}
printf "%s\n" $ids | xargs -P $lanes -I{} tools/seeded_lane.sh {} quick
git checkout -- evidence 2>/dev/null
