#!/bin/bash
# usage: tools/seeded_lane.sh <property-id> [tier]  -- every seeded change of one property against its check, in a scratch
# worktree of /repo HEAD of its own (VERIF_REPO), so that lanes of different properties can run side by side.
# Prints one line per seeded change: <id> <number of VIOLATION lines> <exit>
c=$1; tier=${2:-quick}; wt=/tmp/sm-$c-$$
cd /verif
git -C /repo worktree add -q --detach $wt HEAD || exit 2
cp /repo/fastparquet/cencoding.c /repo/fastparquet/speedups.c $wt/fastparquet/
for d in seeded/$c*/; do
  s=$(basename $d)
  if grep -q NEUTRALISED $d/meta.json 2>/dev/null; then echo "$s neutralised (see meta.json)"; continue; fi
  if [ -f $d/patch_c.diff ]; then
    cf=$(head -1 $d/patch_c.diff | sed 's#.*/\([a-z]*\)\.c.*#\1#')
    cp $wt/fastparquet/$cf.c /tmp/sm-$c-$$.c
    patch -s $wt/fastparquet/$cf.c < $d/patch_c.diff || { echo "$s PATCH-FAILED"; cp /tmp/sm-$c-$$.c $wt/fastparquet/$cf.c; continue; }
  else
    git -C $wt apply /verif/$d/patch.diff || { echo "$s APPLY-FAILED"; continue; }
  fi
  VERIF_REPO=$wt ./check $c --tier $tier > /tmp/seeded-$s-$c.log 2>&1; e=$?
  echo "$s $(grep -c '^VIOLATION' /tmp/seeded-$s-$c.log) exit=$e"
  if [ -f $d/patch_c.diff ]; then cp /tmp/sm-$c-$$.c $wt/fastparquet/$cf.c; rm -f $wt/fastparquet/$cf.c.orig /tmp/sm-$c-$$.c
  else git -C $wt checkout -- .; fi
done
git -C /repo worktree remove --force $wt; git -C /repo worktree prune
